#!/bin/bash
# usage: validate_seeded.sh <dir name under /verif/seeded, e.g. C07-A>   -> prints one result line
# Confirms a seeded change on a scratch worktree of /repo's HEAD (outside /repo and /verif, removed afterwards):
# the demonstration passes without the patch, the patch applies, everything builds, the existing suite passes,
# and the demonstration fails with the patch. Run the entries one after the other (the suite uses fixed ports).
N=$1; D=/verif/seeded/$N
export GOFLAGS=-mod=mod GOPROXY=off GOSUMDB=off GOTOOLCHAIN=local
W=/var/tmp/sfval-$N; L=/var/tmp/sfval-logs; mkdir -p $L
rm -rf $W; git -C /repo worktree add -q --detach $W HEAD >/dev/null 2>&1 || { echo "$N worktree-failed"; exit 1; }
cd $W
DP=$(head -1 $D/demo_path.txt | tr -d '\r\n'); DC=$(head -1 $D/demo_cmd.txt)
DC=$(echo "$DC" | sed "s#^cd /tmp/wt/[A-Za-z0-9_-]* *&& *##")
case "$DC" in *checklinkname*) ;; *) DC=$(echo "$DC" | sed 's/go test /go test -ldflags=-checklinkname=0 /');; esac
cp $D/demo_test.go.txt $W/$DP
( timeout 600 bash -c "$DC" ) > $L/$N.demo0.log 2>&1; rc0=$?
rm -f $W/$DP
if ! git apply --whitespace=nowarn $D/patch.diff 2> $L/$N.apply.log; then
  echo "$N apply=FAIL demo_unpatched_rc=$rc0"; cd /; git -C /repo worktree remove --force $W; exit 1
fi
go build -ldflags=-checklinkname=0 ./... > $L/$N.build.log 2>&1; rcb=$?
timeout 1500 go test -vet=off -count=1 -ldflags=-checklinkname=0 ./... > $L/$N.test.log 2>&1; rct=$?
cp $D/demo_test.go.txt $W/$DP
( timeout 600 bash -c "$DC" ) > $L/$N.demo1.log 2>&1; rc1=$?
echo "$N apply=ok build_rc=$rcb tests_rc=$rct demo_unpatched_rc=$rc0 demo_patched_rc=$rc1"
cd /; git -C /repo worktree remove --force $W
