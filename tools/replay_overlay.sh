#!/bin/bash
# usage: replay_overlay.sh <repo dir> <pkg dir rel> <driver file> <TestName> [env assignments...]
# Runs an in-package test injected by overlay (nothing is written to the repository).
set -u
REPO="$1"; PKG="$2"; DRV="$3"; TEST="$4"; shift 4
OV=$(mktemp /var/tmp/sfov.XXXXXX.json)
printf '{"Replace":{"%s/%s/zz_sfreplay_test.go":"%s"}}' "$REPO" "$PKG" "$DRV" > "$OV"
cd "$REPO" && env "$@" GOFLAGS=-mod=mod GOPROXY=off GOSUMDB=off GOTOOLCHAIN=local go test -overlay "$OV" -vet=off -count=1 -timeout 120s -ldflags=-checklinkname=0 -run "^$TEST\$" -v "./$PKG" 2>&1
rc=$?
rm -f "$OV"
cd "$REPO" && git checkout -q go.mod go.sum 2>/dev/null
exit $rc
