#!/bin/bash
# usage: replay_overlay.sh <repo dir> <pkg dir rel> <driver file> <TestName> [env assignments...]
# Runs an in-package test injected by overlay (nothing is written to the repository).
#   SFRACE=1              run under the race detector
#   SFSED="file|sedexpr"  additionally overlay <pkg>/<file> with a sed-rewritten copy (used only to shorten time constants
#                         so that timer-driven code runs within the replay; the rewritten text is printed)
set -u
REPO="$1"; PKG="$2"; DRV="$3"; TEST="$4"; shift 4
OV=$(mktemp /var/tmp/sfov.XXXXXX.json)
EXTRA=""; TMPF=""
if [ -n "${SFSED:-}" ]; then
  f="${SFSED%%|*}"; ex="${SFSED#*|}"
  TMPF=$(mktemp /var/tmp/sfov.XXXXXX.go)
  sed -e "$ex" "$REPO/$PKG/$f" > "$TMPF"
  diff "$REPO/$PKG/$f" "$TMPF" | sed 's/^/overlay-edit: /'
  EXTRA=$(printf ',"%s/%s/%s":"%s"' "$REPO" "$PKG" "$f" "$TMPF")
fi
printf '{"Replace":{"%s/%s/zz_sfreplay_test.go":"%s"%s}}' "$REPO" "$PKG" "$DRV" "$EXTRA" > "$OV"
cd "$REPO" && env "$@" GOFLAGS=-mod=mod GOPROXY=off GOSUMDB=off GOTOOLCHAIN=local go test ${SFRACE:+-race} -overlay "$OV" -vet=off -count=1 -timeout ${SFTIMEOUT:-120s} -ldflags=-checklinkname=0 -run "^$TEST\$" -v "./$PKG" 2>&1
rc=$?
rm -f "$OV" $TMPF
cd "$REPO" && git checkout -q go.mod go.sum 2>/dev/null
exit $rc
