#!/bin/bash
# usage: mutcheck.sh <patch.diff|-e 'sed expr' file> <prop> [extra sfverify args]
# Applies a patch to a scratch copy of /repo's working tree (outside /repo and /verif), runs the check there, removes the copy.
set -u
PATCH="$1"; PROP="$2"; shift 2
S=$(mktemp -d /var/tmp/sfmut.XXXXXX)
rsync -a --exclude .git /repo/ "$S/"
( cd "$S" && git init -q . >/dev/null 2>&1 && git apply --whitespace=nowarn "$PATCH" ) || { echo "PATCH-FAILED"; rm -rf "$S"; exit 3; }
/verif/bin/sfverify check "$PROP" --repo "$S" --no-evidence --replays "$S/.replays" "$@"
rc=$?
rm -rf "$S"
exit $rc
