#!/usr/bin/env python3
# Regenerates /verif/MANIFEST.json from the table below (kept valid at all times).
import json, subprocess
TECH = "contract-based deductive verification: VC generation over go/ssa of the real code (requires/ensures/loop invariants/monitor invariants/ghost state in build-tagged comment files), obligations discharged by z3 4.8.12 / z3 5.1.0 / cvc5 1.0.3"
TRUST = "Trusted: Go front end + go/ssa translation, the VC generator (/verif/engine), the SMT solvers; every assumed library contract, axiom and unchecked assumption used by the run is listed in the evidence file under `assumptions`."
CLAIMS = {
 "C09": dict(design="DESIGN.md section 4 C09",
   text="Proof on the real code: dataPrefixForLength, WriteData, WritePadding, MaxDataForSize and ReadData carry full functional contracts against the format table of the package comment (spec functions plen/hdrK/decK). ReadData is proved against an oracle defined on the raw byte stream (first data chunk after any padding; EOF iff at a chunk boundary; unexpected-EOF iff inside a prefix or body; too-long iff the third continuation bit; allocation == announced length < 2^20) for every reader behaviour the io.Reader contract allows (short reads, zero-length reads, data together with EOF). Machine integers are 64-bit vectors. Round-trip lemmas tie the writers' postconditions to the reader's oracle.",
   note="Assumed contracts of io.Reader.Read / io.Writer.Write / io.ReadFull / io.CopyN (prelude/io.spec; readers whose only error is io.EOF; streams shorter than 2^40 bytes); recursive spec function firstData assumed well-founded; termination (a reader returning (0,nil) forever) not covered."),
 "C18": dict(design="DESIGN.md section 4 C18",
   text="Proof on the real code: the ClientID ring map (newClientIDMap/Set/Get) is verified against an abstract history of Set calls kept as ghost state (monitor invariant on its lock, both directions of Get: found iff the id is among the most recent cap Sets, address of its latest Set, capacity 0 handled), clientAddr against the sanitiser cases of the property (absent / unparseable / unspecified => empty, else stub port), the carrier handler registers the ClientID it read with this request's sanitised client_ip, acceptStreams looks the address up once per session and never hands out a nil RemoteAddr, RemoteAddr returns the stored address; the package-level map is non-nil (proved for the package initialiser).",
   note="net.ParseIP / IsUnspecified / TCPAddr.String are uninterpreted pure functions; kcp-go is assumed to report the ClientID as a session's remote address; sequential proof under the monitor discipline (other threads change the map only under its lock and re-establish the invariant); which carrier is 'most recent' across goroutines is the order of Set calls under the lock."),
 "C17": dict(design="DESIGN.md section 4 C17",
   text="Proof on the real code. Client map: the heap.Interface laws of clientMapInner (Len/Less/Swap/Push/Pop keep the index bijection byAddr<->byAge, queues open and pairwise distinct) are proved; SendQueue (existing address keeps its queue and is refreshed, absent address gets a fresh open queue, other records untouched) and removeExpired (never removes a record idle for less than the timeout, leaves none idle for the timeout or longer, closes removed queues) are proved against them with loop invariants; the ClientMap monitor invariant on its lock, the sweeper closure (removeExpired under the lock, with the constructor's timeout, every timeout/2). Queue conn: enqueues are private copies tagged with the caller's address, every send is a non-blocking select case, operations fail after Close and report errors only when closed, closed exactly once. Redial conn: errors only after close/dial failure, every obtained carrier closed before the next dial and before returning (ghost accounting), and blocking-operation obligations B1 on exchange and its two pumps (no pump can be parked forever on its error report).",
   note="container/heap.{Push,Pop,Fix} applied to clientMapInner are ASSUMED contracts (prelude/heap_clientmap.spec), conditional on the proved heap.Interface laws; the root-is-minimum consequence of heap order is part of that assumed contract. time.Time is an integer instant. sync.Once runs its function once. Goroutine interleavings only through the monitor invariant and the B1 obligations; that a paired goroutine is running is assumed. Leak freedom beyond B1 (a carrier whose own ReadFrom never returns) is out of reach."),
 "C05": dict(design="DESIGN.md section 4 C05",
   text="Proof on the real code of the sequential ingredients: the carrier handler calls turbotunnelMode only after the token compared equal (token gate) and always closes the carrier; the read-loop closure attributes every upstream packet to the ClientID this carrier presented and the write-loop closure takes downstream packets only from that ClientID's queue; QueueIncoming/WriteTo enqueue private copies tagged with the caller's address; ClientMap.SendQueue returns the queue of exactly the address asked for (index bijection invariant, queues pairwise distinct: two ClientIDs never share a queue, one ClientID keeps its queue while retained); the textual form of a ClientID covers all eight bytes (kcp-go keys sessions by it).",
   note="Exactly-one accepted connection per session and stream continuity live inside kcp-go/smux (out of reach). container/heap contracts assumed as for C17. Monitor discipline for the client map."),
 "C02": dict(design="DESIGN.md section 4 C02",
   text="Proof on the real code of the routing contracts: RequestOffer registers the poll with the caller's id/NAT/load and a fresh private channel; ClientOffers calls matchSnowflake only after GetBridgeInfo succeeded for the decoded fingerprint (a client naming an unknown bridge is never matched), sends the offer only on the matched entry's private offer channel, returns as answer only the value received on that entry's answer channel, and unregisters the id before the matching lock is released; ProxyAnswers sends only on the answer channel of the entry registered under the decoded session id; ProxyPolls hands out the WebSocket address of the bridge-list entry for the offer's fingerprint; LoadBridgeInfo replaces (never merges) the list; matchSnowflake/AddSnowflake/the per-poll goroutine keep the matching-state monitor invariant (an entry is filed in at most one pool, positions unique), so an entry is popped at most once.",
   note="Byte-for-byte identity of what travels over the channels rests on Go channel semantics (assumed). container/heap contracts assumed (prelude/heap_snowflake.spec, conditional on the proved heap.Interface laws). Interleavings only through the monitor invariant. messages.* decoders are unconstrained here (their own contracts: C12)."),
 "C03": dict(design="DESIGN.md section 4 C03",
   text="Proof on the real code: heap.Interface laws of SnowflakeHeap (Less = fewer clients, Swap/Push/Pop keep the index fields); the monitor invariant on snowflakeLock (the heap `snowflakes` holds only proxies that reported unrestricted NAT, `restrictedSnowflakes` holds none; every filed entry is in exactly one of the two pools at a unique position) is preserved by AddSnowflake, matchSnowflake and the poll-timeout goroutine; matchSnowflake: a restricted/unknown client only gets an unrestricted proxy, an unrestricted client is served from the other pool, refusal iff the eligible pool is empty, and the proxy handed out has the fewest clients of that pool; the timeout branch removes an entry from the pool it was filed in, iff it is still queued.",
   note="container/heap.{Push,Pop,Remove} on SnowflakeHeap are ASSUMED contracts stating the library's priority-queue semantics through a ghost membership field (prelude/heap_snowflake.spec), conditional on the proved laws. NAT defaulting in the decoders is part of C12."),
 "C04": dict(design="DESIGN.md section 4 C04",
   text="Proof of the sequential sufficient conditions: the per-poll goroutine answers its poll exactly once (send or close) on every path — this obligation failed on the pinned tree (poll timeout racing with a client match) and is proved after the fix; every blocking channel operation of RequestOffer / ClientOffers / the per-poll goroutine has a timer case or a named counterpart (B1); ClientOffers unregisters the matched id before releasing the matching lock; the timeout branch unregisters iff the entry is still queued. One open known finding: ProxyAnswers' send on the unbuffered answer channel has no abandon case (an answer posted just after the client's timeout blocks the handler forever).",
   note="The numeric bound (10 s + slack), fairness and scheduling are out of reach; timers are 'a case that can always fire'; that a paired goroutine is running is assumed (B1 c)."),
 "C06": dict(design="DESIGN.md section 4 C06",
   text="Proof on the real code (SMT strings): NewNameMatcher/IsMember/IsSupersetOf equal the spec functions written from the documented pattern semantics; lemma superset_sound (for ALL patterns and hostnames: judged superset and member of the smaller implies member of the larger); the broker's CheckProxyRelayPattern is that judgement on the announced (or presumed) pattern, ProxyPolls registers a proxy only if it returned true and otherwise answers the explicit 'incorrect relay pattern' rejection; the proxy's runSession lets a broker-supplied relay URL reach the peer connection only if its hostname is in the proxy's own pattern and the scheme is wss unless non-TLS was allowed, and the data channel handler dials exactly that URL (or the operator's own when empty).",
   note="net/url.Parse / Hostname are unconstrained functions of the URL text; strings.HasSuffix/HasPrefix/TrimSuffix/TrimPrefix by their SMT-LIB definitions (prelude/strings.spec)."),
 "C16": dict(design="DESIGN.md section 4 C16",
   text="Proof on the real code of the slot typestate: runSession releases its slot exactly once on every return path (never one it does not hold) or hands it over exactly when the data-channel case of its select fired; datachannelHandler releases its slot exactly once on every path; the OnDataChannel callback is safe under repeated invocation by the remote client and starts at most one handler per peer connection (failed on the pinned tree, fixed); get/ret perform one counter step and one channel operation iff capacity != 0; newTokens sizes the channel; the load reported in every poll is computed afresh and is a multiple of 8 not above the slots in use.",
   note="'Never more than N at once' additionally needs Go's buffered-channel semantics (assumed). The timer-vs-open window of the hand-over is not decided (DESIGN section 5 item 14). sync.Once semantics assumed."),
}
NA = {
 "C01": "end-to-end delivery across proxy churn is a property of the composition of kcp-go, smux, pion and three processes under fault schedules; no contract on a function in /repo states or implies it (DESIGN.md section 6)",
}
NOT_BUILT = "not built yet (engine under construction; see DESIGN.md section 10)"
m = {
 "version": 1,
 "setup_cmd": "cd /verif/engine && GOFLAGS=-mod=mod GOPROXY=off GOSUMDB=off GOTOOLCHAIN=local go build -o /verif/bin/sfverify .",
 "hooks": {
  "guard": "verif",
  "enable": "-tags verif (comment-only contract files zz_contracts_verif.go; they add no code)",
  "baseline_off_cmd": "cd /repo && GOFLAGS=-mod=mod GOPROXY=off GOSUMDB=off GOTOOLCHAIN=local go test -mod=mod -json -vet=off -count=1 -timeout 25m ./...",
  "source_commits": [],
  "add_only": True,
 },
 "engines": [{"name": "sfverify", "path": "engine", "serves_properties": sorted(CLAIMS), "kind_free_text": "self-written VC generator over go/ssa (naive form) of the real /repo code, contracts in comment-only build-tagged files, obligations discharged by z3 4.8.12 / z3 5.1.0 / cvc5 1.0"}],
 "checks": [],
 "notes": "Fix commits in /repo (unguarded, message starts with 'fix:') are recorded in known_findings.json. Seeded property-breaking changes are under seeded/; the must-fail corpus of the engine under selftest/mutants.",
 "not_applicable": [],
}
log = subprocess.check_output(["git", "-C", "/repo", "log", "--format=%h %s"]).decode().splitlines()
m["hooks"]["source_commits"] = [l.split()[0] for l in log if l.split()[1] == "verif:"]
for pid in sorted(CLAIMS):
    c = CLAIMS[pid]
    m["checks"].append({
        "property_id": pid,
        "quick_cmd": f"./bin/sfverify check {pid} --tier quick",
        "thorough_cmd": f"./bin/sfverify check {pid} --tier thorough",
        "evidence_file": f"/verif/evidence/{pid}.json",
        "replay_cmd_template": "./bin/sfverify replay {path}",
        "engine": "sfverify",
        "level_claimed": {"category": "proof", "text": c["text"], "design_ref": c["design"]},
        "level_note": c["note"] + " " + TRUST,
        "technique": TECH,
    })
for i in range(1, 21):
    pid = "C%02d" % i
    if pid in CLAIMS:
        continue
    m["not_applicable"].append({"property_id": pid, "reason": NA.get(pid, NOT_BUILT)})
json.dump(m, open("/verif/MANIFEST.json", "w"), indent=1)
print("claims:", sorted(CLAIMS))
