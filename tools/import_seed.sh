#!/bin/bash
# usage: import_seed.sh <src dir with patch.diff demo_test.go demo_path.txt demo_cmd.txt meta.json> <id> <variant>
# Copies a seeded change into /verif/seeded/<id>-<variant>/, confirms it on a scratch worktree (validate_seeded.sh)
# and runs the property's check on it (mutcheck.sh).
SRC=$1; ID=$2; V=$3; D=/verif/seeded/$ID-$V
mkdir -p $D
cp $SRC/patch.diff $D/patch.diff
if [ -f $SRC/demo_test.go ]; then cp $SRC/demo_test.go $D/demo_test.go.txt; else cp $SRC/demo/main.go $D/demo_test.go.txt 2>/dev/null; fi
cp $SRC/demo_path.txt $SRC/demo_cmd.txt $D/
sed -i "s#/tmp/wt[0-9]*/[A-Za-z0-9_-]*#/tmp/wt/X#g" $D/demo_cmd.txt
python3 - "$SRC/meta.json" "$D/meta.json" "$ID" "$V" <<'PY'
import json,sys
src,dst,pid,v=sys.argv[1:5]
try: m=json.load(open(src))
except Exception as e: m={"summary":"(meta.json unreadable: %s)"%e}
m['property']=pid; m['variant']=v; m['round']=int(__import__('os').environ.get('SEED_ROUND','2'))
m['demo']={'file':'demo_test.go.txt (copy to the path in demo_path.txt, run demo_cmd.txt)'}
json.dump(m,open(dst,'w'),indent=1)
PY
r=$(/verif/tools/validate_seeded.sh $ID-$V 2>&1 | tail -1)
python3 - "$D/meta.json" "$r" <<'PY'
import json,sys
m=json.load(open(sys.argv[1])); m['validated_on_current_tree']=sys.argv[2]; json.dump(m,open(sys.argv[1],'w'),indent=1)
PY
echo "VALIDATION $r"
/verif/tools/mutcheck.sh $D/patch.diff $ID 2>&1 | grep "VIOLATION\|^property\|PATCH" | sed 's/replay=[^ ]* //' | cut -c1-260 | head -4
