#!/bin/bash
# usage: mkmut.sh <name> <prop> <expected-obligation-substring> <file rel to /repo> <python-replace-old> <python-replace-new>
# creates /verif/selftest/mutants/<name>.diff and .json
set -eu
NAME="$1"; PROP="$2"; EXP="$3"; FILE="$4"; OLD="$5"; NEW="$6"
T=$(mktemp -d /var/tmp/mkmut.XXXX)
mkdir -p "$T/a/$(dirname $FILE)" "$T/b/$(dirname $FILE)"
cp "/repo/$FILE" "$T/a/$FILE"
OLD="$OLD" NEW="$NEW" python3 - "$T/a/$FILE" "$T/b/$FILE" <<'PY'
import sys,os
s=open(sys.argv[1]).read()
old=os.environ['OLD']; new=os.environ['NEW']
assert s.count(old)>=1, "pattern not found"
open(sys.argv[2],'w').write(s.replace(old,new,1))
PY
( cd "$T" && diff -u "a/$FILE" "b/$FILE" > "/verif/selftest/mutants/$NAME.diff" ) || true
printf '{"name":"%s","property":"%s","expect":"%s","file":"%s"}\n' "$NAME" "$PROP" "$EXP" "$FILE" > "/verif/selftest/mutants/$NAME.json"
rm -rf "$T"
echo "created $NAME"
