#!/usr/bin/env python3
# Refreshes the "*As built ...*" paragraph under each "### Cxx" heading of DESIGN.md from MANIFEST.json.
import json, re
m = json.load(open('/verif/MANIFEST.json'))
s = open('/verif/DESIGN.md').read()
MARK = " Trusted: Go front end"
for c in m['checks']:
    pid = c['property_id']
    mt = re.search(r'^### %s [^\n]*\n' % pid, s, re.M)
    if not mt:
        continue
    note = c['level_note']
    if MARK in note:
        note = note[:note.index(MARK)]
    ins = ("\n*As built (the text of MANIFEST.json; where it differs from the plan below, this is what exists).* "
           + c['level_claimed']['text'] + "\n\n*Assumed / not covered.* " + note.strip() + "\n\n*Plan (round 0):*\n")
    rest = s[mt.end():]
    if rest.startswith("\n*As built"):
        end = rest.index("*Plan (round 0):*\n") + len("*Plan (round 0):*\n")
        rest = rest[end:]
    s = s[:mt.end()] + ins + rest
open('/verif/DESIGN.md', 'w').write(s)
print("DESIGN.md synced with MANIFEST.json")
