package snowflake_proxy

import (
	"io/ioutil"
	"testing"
	"time"

	"git.torproject.org/pluggable-transports/snowflake.git/v2/common/event"
)

// Replay driver (run under `go test -race`) for the guarded-by obligations of proxy/lib.logEventLogger (C20, "traffic
// counters"): the periodic summary (logTick, run by the timer goroutine of task.Periodic) reads and resets the sums
// that OnNewSnowflakeEvent - called by whichever goroutine reports the end of a connection - adds to, with nothing
// ordering the two. Schedule: the real NewProxyEventLogger with a 5 ms period, connection-over events for 150 ms.
func TestSFReplayEventLoggerRace(t *testing.T) {
	el := NewProxyEventLogger(5*time.Millisecond, ioutil.Discard)
	stop := time.After(150 * time.Millisecond)
	for {
		select {
		case <-stop:
			if c, ok := el.(interface{ Close() error }); ok {
				c.Close()
			}
			return
		default:
		}
		el.OnNewSnowflakeEvent(event.EventOnProxyConnectionOver{InboundTraffic: 10, OutboundTraffic: 20})
	}
}
