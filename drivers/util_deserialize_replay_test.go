package util

// Replay driver (R3) for obligations common/util.DeserializeSessionDescription/safety.typeassert#1,#2: JSON documents
// whose "type" / "sdp" members are not strings (the inputs a remote party controls). Input: env SFREPLAY = the JSON text
// (default: the recorded witnesses).

import (
	"os"
	"testing"
)

func TestSFReplayDeserialize(t *testing.T) {
	inputs := []string{`{"type":1,"sdp":""}`, `{"type":"offer","sdp":5}`, `{"type":null,"sdp":null}`}
	if s := os.Getenv("SFREPLAY"); s != "" {
		inputs = []string{s}
	}
	for _, in := range inputs {
		func() {
			defer func() {
				if r := recover(); r != nil {
					t.Errorf("REPRODUCED: DeserializeSessionDescription(%q) panics: %v", in, r)
				}
			}()
			_, err := DeserializeSessionDescription(in)
			t.Logf("%q: err=%v", in, err)
		}()
	}
}
