package snowflake_proxy

import (
	"net"
	"sync"
	"testing"

	"git.torproject.org/pluggable-transports/snowflake.git/v2/common/event"
	"github.com/pion/webrtc/v3"
)

// Replay driver for proxy/lib.(*SnowflakeProxy).makePeerConnectionFromOffer/post.value-or-error. FAULT INJECTION: the
// overlay named in replay_drivers.json closes the peer connection just before SetLocalDescription so that this library
// call fails (as it would for any other reason). On the defective tree the failure branch overwrites err with the
// result of pc.Close() - nil - and the function returns (nil, nil); runSession then hands the nil peer connection to
// sendAnswer, which dereferences it on the proxy's polling goroutine.
func TestSFReplayProxySetLocalFails(t *testing.T) {
	sf := &SnowflakeProxy{EventDispatcher: event.NewSnowflakeEventDispatcher(), shutdown: make(chan struct{})}
	client, err := webrtc.NewPeerConnection(webrtc.Configuration{})
	if err != nil {
		t.Fatal(err)
	}
	defer client.Close()
	if _, err := client.CreateDataChannel("test", nil); err != nil {
		t.Fatal(err)
	}
	offer, err := client.CreateOffer(nil)
	if err != nil {
		t.Fatal(err)
	}
	done := webrtc.GatheringCompletePromise(client)
	if err := client.SetLocalDescription(offer); err != nil {
		t.Fatal(err)
	}
	<-done
	var claim sync.Once
	pc, err := sf.makePeerConnectionFromOffer(client.LocalDescription(), webrtc.Configuration{}, make(chan struct{}), &claim,
		func(conn *webRTCConn, remoteAddr net.Addr) {})
	if err == nil && pc == nil {
		t.Errorf("REPRODUCED: makePeerConnectionFromOffer returned (nil, nil) after a failed SetLocalDescription")
	}
	if err == nil && pc != nil {
		t.Logf("fault not injected (run with the overlay of replay_drivers.json)")
		pc.Close()
	}
}
