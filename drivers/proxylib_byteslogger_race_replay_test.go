package snowflake_proxy

import (
	"testing"
	"time"
)

// Replay driver (run under `go test -race`) for the guarded-by obligations of proxy/lib.bytesSyncLogger (C20, "traffic
// counters"): the totals are written by the logger's own goroutine and read by GetStat / ThroughputSummary from the
// goroutine that closes the connection, with nothing ordering the two. Schedule: 200 updates through the real
// AddInbound/AddOutbound, then the two readers, as webRTCConn.Close and the OnClose callback do.
func TestSFReplayBytesLoggerRace(t *testing.T) {
	b := newBytesSyncLogger()
	for i := 0; i < 200; i++ {
		b.AddInbound(3)
		b.AddOutbound(5)
	}
	in, out := b.GetStat()
	s := b.ThroughputSummary()
	time.Sleep(50 * time.Millisecond)
	in2, out2 := b.GetStat()
	t.Logf("first read %d/%d, later %d/%d, %s", in, out, in2, out2, s)
	if in2 != 600 || out2 != 1000 {
		t.Errorf("totals %d/%d after all updates were applied, want 600/1000", in2, out2)
	}
}
