package safelog

// Replay driver for common/safelog.(*LogScrubber).Write/call.Scrub.one-complete-line-at-a-time:
// the same bytes, written in one call or line by line, must reach the sink scrubbed identically.

import (
	"bytes"
	"testing"
)

func TestSFReplayBatchedLines(t *testing.T) {
	in := "1.2.3.4\n5.6.7.8\n"
	var one, two bytes.Buffer
	a := &LogScrubber{Output: &one}
	a.Write([]byte(in))
	b := &LogScrubber{Output: &two}
	b.Write([]byte("1.2.3.4\n"))
	b.Write([]byte("5.6.7.8\n"))
	t.Logf("one write : %q", one.String())
	t.Logf("two writes: %q", two.String())
	if one.String() != two.String() {
		t.Fatalf("output depends on how the bytes are split across writes")
	}
	if bytes.Contains(one.Bytes(), []byte("5.6.7.8")) {
		t.Fatalf("address 5.6.7.8 reached the sink")
	}
}
