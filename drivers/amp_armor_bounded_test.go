package amp

// Bounded stand-in for the half of C10 that goes through golang.org/x/net/html and encoding/base64 (outside the
// verified code): decode(encode(x)) == x, invariance under cache-style rewriting, and the error cases.
// Bound: payload lengths 0..120 and the lengths around every pre-element boundary up to 3 elements; encoder write
// chunks of 1, 7 and all bytes; decoder reads of 1, 5 and 4096 bytes; re-separation of the words with each single ASCII whitespace byte (and, for small payloads, with longer runs); markup added
// outside the pre elements; nine malformed documents.

import (
	"bytes"
	"io"
	"strings"
	"testing"
)

type sfChunkReader struct {
	r io.Reader
	n int
}

func (c sfChunkReader) Read(p []byte) (int, error) {
	if len(p) > c.n {
		p = p[:c.n]
	}
	return c.r.Read(p)
}

func sfEncode(t *testing.T, data []byte, chunk int) string {
	var sb strings.Builder
	enc, err := NewArmorEncoder(&sb)
	if err != nil {
		t.Fatal(err)
	}
	for len(data) > 0 {
		n := chunk
		if n > len(data) {
			n = len(data)
		}
		if _, err := enc.Write(data[:n]); err != nil {
			t.Fatal(err)
		}
		data = data[n:]
	}
	if err := enc.Close(); err != nil {
		t.Fatal(err)
	}
	return sb.String()
}

func sfDecode(doc string, readSize int) ([]byte, error) {
	dec, err := NewArmorDecoder(sfChunkReader{strings.NewReader(doc), readSize})
	if err != nil {
		return nil, err
	}
	return io.ReadAll(dec)
}

func TestSFBoundedArmor(t *testing.T) {
	perElement := 24576 // payload bytes that fit one pre element are below this; lengths around k*perElement*3/4 cross element boundaries
	var lengths []int
	for n := 0; n <= 120; n++ {
		lengths = append(lengths, n)
	}
	for k := 1; k <= 3; k++ {
		for d := -40; d <= 40; d += 8 {
			lengths = append(lengths, k*perElement*3/4/4*4+d, k*24549+d)
		}
	}
	checked := 0
	for _, n := range lengths {
		if n < 0 {
			continue
		}
		data := make([]byte, n)
		for i := range data {
			data[i] = byte(i*7 + n)
		}
		chunks := []int{1, 7, n + 1}
		if n > 2000 {
			chunks = []int{4099, n + 1}
		}
		for _, ch := range chunks {
			doc := sfEncode(t, data, ch)
			// shape: every word <= 32 bytes, every pre element <= 32 KiB of text
			for _, el := range strings.Split(doc, "<pre>")[1:] {
				text := el[:strings.Index(el, "</pre>")]
				if len(text) > 32*1024 {
					t.Fatalf("n=%d: pre element with %d bytes of text", n, len(text))
				}
				for _, w := range strings.Fields(text) {
					if len(w) > 32 {
						t.Fatalf("n=%d: word of %d bytes", n, len(w))
					}
				}
			}
			variants := []string{doc}
			if n <= 120 || ch > n {
				// one-byte separators keep every element within the 32 KiB the encoder budgets for ("1 byte of
				// whitespace after each chunk"); longer separators are only tried on payloads far below that size
				seps := []string{" ", "\t", "\r", "\x0c"}
				if n <= 120 {
					seps = append(seps, "\r\n", " \n\t ")
				}
				for _, ws := range seps {
					variants = append(variants, strings.ReplaceAll(doc, "\n", ws))
				}
				variants = append(variants, strings.Replace(doc, "<body>", "<body><div class=x><p>cached by example</p></div><!-- c -->", 1), strings.ReplaceAll(doc, "</pre>", "</pre><span>ad</span>"))
			}
			for vi, v := range variants {
				reads := []int{4096}
				if n <= 120 {
					reads = []int{1, 5, 4096}
				}
				for _, rs := range reads {
					got, err := sfDecode(v, rs)
					checked++
					if err != nil || !bytes.Equal(got, data) {
						t.Fatalf("n=%d chunk=%d variant=%d read=%d: round trip failed (err=%v, got %d bytes)", n, ch, vi, rs, err, len(got))
					}
				}
			}
		}
	}
	good := sfEncode(t, []byte("hello"), 5)
	pre := good[strings.Index(good, "<pre>") : strings.Index(good, "</pre>")+6]
	bad := map[string]string{
		"nested pre":             strings.Replace(good, pre, "<pre>\n0\n<pre>aGVsbG8=\n</pre></pre>", 1),
		"nested pre closed once": strings.Replace(good, pre, "<pre>\n0\n<pre>aGVsbG8=\n</pre>", 1),
		"stray end tag":          strings.Replace(good, pre, "</pre>"+pre, 1),
		"unterminated pre":       strings.Replace(good, "</pre>", "", 1),
		"unknown version":        strings.Replace(good, "<pre>\n0", "<pre>\n1", 1),
		"bad base64":             strings.Replace(good, pre, "<pre>\n0!!!!\n</pre>", 1),
		"no pre at all":          strings.Replace(good, pre, "", 1),
		"empty document":         "",
		"oversized element":      "<pre>0" + strings.Repeat("A", 64*1024) + "</pre>",
	}
	for name, doc := range bad {
		got, err := sfDecode(doc, 4096)
		checked++
		if err == nil {
			t.Errorf("%s: decoded %q without error", name, got)
		}
	}
	t.Logf("%d decodes checked", checked)
}

// TestSFReplayConcurrentDecoders: witness for common/amp/stateless.* - decoders that run at the same time decode their
// own documents (they share no package-level scratch state). Bound: 8 decoders x 40 rounds, payloads of 3000 bytes,
// one-byte reads so that the decoders interleave.
func TestSFReplayConcurrentDecoders(t *testing.T) {
	const workers = 8
	docs := make([]string, workers)
	want := make([][]byte, workers)
	for w := 0; w < workers; w++ {
		p := make([]byte, 3000)
		for i := range p {
			p[i] = byte(w*31 + i*7 + i/251)
		}
		want[w] = p
		docs[w] = sfEncode(t, p, len(p))
	}
	errs := make(chan string, workers)
	for w := 0; w < workers; w++ {
		go func(w int) {
			for round := 0; round < 40; round++ {
				got, err := sfDecode(docs[w], 1)
				if err != nil {
					errs <- "decoder " + string(rune('0'+w)) + ": " + err.Error()
					return
				}
				if !bytes.Equal(got, want[w]) {
					errs <- "decoder " + string(rune('0'+w)) + " returned bytes of another decoder's document"
					return
				}
			}
			errs <- ""
		}(w)
	}
	for w := 0; w < workers; w++ {
		if e := <-errs; e != "" {
			t.Error(e)
		}
	}
}
