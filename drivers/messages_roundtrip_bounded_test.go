package messages

// Bounded stand-in for the round trip of the six broker messages through the real encoding/json (C12: the contracts
// prove what the repository adds on top of the codec; that encoding/json reproduces struct fields is outside the
// verified code). Bound: every combination of 6 session ids / offers / answers (empty, ASCII, quotes and backslashes,
// control bytes, non-ASCII, 4 KiB), the 3 NAT names plus empty plus an invalid one, 4 proxy types, 4 client counts,
// 3 relay patterns, 3 fingerprints.

import (
	"strings"
	"testing"
)

func TestSFBoundedMessagesRoundTrip(t *testing.T) {
	texts := []string{"", "a", `q"uo\te`, "ctl\x01\n\t", "üñí—", strings.Repeat("x", 4096)}
	nats := []string{"", "unknown", "restricted", "unrestricted", "bogus"}
	types := []string{"standalone", "webext", "badge", "made-up"}
	n := 0
	for _, sid := range texts {
		for _, nat := range nats {
			for _, pt := range types {
				for _, clients := range []int{0, 1, 8, 1 << 20} {
					for _, pat := range []string{"", "snowflake.torproject.net$", "^x"} {
						b, err := EncodeProxyPollRequestWithRelayPrefix(sid, pt, nat, clients, pat)
						if err != nil {
							t.Fatal(err)
						}
						s2, pt2, nat2, c2, pat2, aware, err := DecodeProxyPollRequestWithRelayPrefix(b)
						n++
						wantErr := sid == "" || nat == "bogus"
						if (err != nil) != wantErr {
							t.Fatalf("poll %q/%q: err=%v", sid, nat, err)
						}
						if err != nil {
							continue
						}
						wantNat := nat
						if nat == "" {
							wantNat = "unknown"
						}
						wantType := pt
						if pt == "made-up" {
							wantType = "unknown"
						}
						if s2 != sid || pt2 != wantType || nat2 != wantNat || c2 != clients || pat2 != pat || !aware {
							t.Fatalf("poll round trip: %q %q %q %d %q -> %q %q %q %d %q %v", sid, pt, nat, clients, pat, s2, pt2, nat2, c2, pat2, aware)
						}
					}
				}
			}
		}
	}
	for _, offer := range texts {
		for _, nat := range nats[:4] {
			for _, relay := range []string{"", "wss://snowflake.torproject.net/"} {
				b, _ := EncodePollResponseWithRelayURL(offer, true, nat, relay, "")
				o2, n2, r2, err := DecodePollResponseWithRelayURL(b)
				n++
				if offer == "" {
					if err == nil {
						t.Fatalf("match without offer accepted")
					}
					continue
				}
				wantNat := nat
				if nat == "" {
					wantNat = "unknown"
				}
				if err != nil || o2 != offer || n2 != wantNat || r2 != relay {
					t.Fatalf("poll response round trip: %q %q %q -> %q %q %q %v", offer, nat, relay, o2, n2, r2, err)
				}
			}
		}
	}
	if b, _ := EncodePollResponseWithRelayURL("x", false, "", "", "no match"); true {
		o, _, _, err := DecodePollResponseWithRelayURL(b)
		if o != "" || err != nil {
			t.Fatalf("no match: %q %v", o, err)
		}
	}
	for _, ans := range texts {
		for _, sid := range texts {
			b, _ := EncodeAnswerRequest(ans, sid)
			a2, s2, err := DecodeAnswerRequest(b)
			n++
			if (err != nil) != (ans == "" || sid == "") {
				t.Fatalf("answer %q/%q: %v", ans, sid, err)
			}
			if err == nil && (a2 != ans || s2 != sid) {
				t.Fatalf("answer round trip")
			}
		}
	}
	for _, ok := range []bool{true, false} {
		b, _ := EncodeAnswerResponse(ok)
		got, err := DecodeAnswerResponse(b)
		if err != nil || got != ok {
			t.Fatalf("answer response %v -> %v %v", ok, got, err)
		}
	}
	fps := []string{"", "2B280B23E1107BB62ABFC40DDCC8824814F80A72", "zz"}
	for _, offer := range texts {
		for _, nat := range nats {
			for _, fp := range fps {
				req := &ClientPollRequest{Offer: offer, NAT: nat, Fingerprint: fp}
				b, err := req.EncodeClientPollRequest()
				if err != nil {
					t.Fatal(err)
				}
				got, err := DecodeClientPollRequest(b)
				n++
				wantErr := offer == "" || nat == "bogus" || fp == "zz"
				if (err != nil) != wantErr {
					t.Fatalf("client poll %q/%q/%q: %v", offer, nat, fp, err)
				}
				if err != nil {
					continue
				}
				wantNat, wantFp := nat, fp
				if nat == "" {
					wantNat = "unknown"
				}
				if fp == "" {
					wantFp = "2B280B23E1107BB62ABFC40DDCC8824814F80A72"
				}
				if got.Offer != offer || got.NAT != wantNat || got.Fingerprint != wantFp {
					t.Fatalf("client poll round trip")
				}
			}
		}
	}
	for _, ans := range texts {
		for _, e := range texts[:3] {
			b, _ := (&ClientPollResponse{Answer: ans, Error: e}).EncodePollResponse()
			got, err := DecodeClientPollResponse(b)
			n++
			if (err != nil) != (ans == "" && e == "") {
				t.Fatalf("client response %q/%q: %v", ans, e, err)
			}
			if err == nil && (got.Answer != ans || got.Error != e) {
				t.Fatalf("client response round trip")
			}
		}
	}
	t.Logf("%d round trips", n)
}
