package main

import (
	"net/http/httptest"
	"strings"
	"testing"
	"time"

	"github.com/pion/webrtc/v3"
)

// Replay drivers for the NAT probe server (C13).
//
// TestSFReplayProbeNoOffer - obligation probetest.probeHandler/safety.nil: a prober posts a well-formed poll response
// that carries no offer ({"Status":"no match"}): DecodePollResponse returns ("", "unknown", nil) and the handler, in
// its "offer is empty" branch, formats err.Error() of that nil error. On the defective tree the call panics.
func TestSFReplayProbeNoOffer(t *testing.T) {
	for _, body := range []string{`{"Status":"no match"}`, `{"Status":"no match","NAT":"restricted"}`} {
		w := httptest.NewRecorder()
		r := httptest.NewRequest("POST", "/probe", strings.NewReader(body))
		func() {
			defer func() {
				if p := recover(); p != nil {
					t.Errorf("REPRODUCED: probeHandler panics on %s: %v", body, p)
				}
			}()
			probeHandler(w, r)
		}()
		if w.Code != 400 {
			t.Errorf("body %s: status %d, want 400", body, w.Code)
		}
	}
}

// TestSFReplayProbeTwoDataChannels - obligation probetest.makePeerConnectionFromOffer$1$1/safety.close: a prober whose
// offer carries TWO data channels (real in-process pion peer). Each channel's OnOpen callback closes the one
// notification channel: on the defective tree the second close panics inside a pion goroutine and the process dies.
func TestSFReplayProbeTwoDataChannels(t *testing.T) {
	client, err := webrtc.NewPeerConnection(webrtc.Configuration{})
	if err != nil {
		t.Fatal(err)
	}
	defer client.Close()
	opened := make(chan struct{}, 4)
	for _, l := range []string{"a", "b"} {
		dc, err := client.CreateDataChannel(l, nil)
		if err != nil {
			t.Fatal(err)
		}
		dc.OnOpen(func() { opened <- struct{}{} })
	}
	offer, err := client.CreateOffer(nil)
	if err != nil {
		t.Fatal(err)
	}
	done := webrtc.GatheringCompletePromise(client)
	if err := client.SetLocalDescription(offer); err != nil {
		t.Fatal(err)
	}
	<-done
	dataChan := make(chan struct{})
	pc, err := makePeerConnectionFromOffer(client.LocalDescription(), dataChan)
	if err != nil {
		t.Fatal(err)
	}
	defer pc.Close()
	if err := client.SetRemoteDescription(*pc.LocalDescription()); err != nil {
		t.Fatal(err)
	}
	n := 0
	timeout := time.After(20 * time.Second)
	for n < 2 {
		select {
		case <-opened:
			n++
		case <-timeout:
			t.Logf("not reproduced: only %d data channel(s) opened", n)
			return
		}
	}
	// both channels are open on the prober's side; give the server's callbacks time to run
	time.Sleep(time.Second)
	select {
	case <-dataChan:
	default:
		t.Errorf("the server never noticed an open data channel")
	}
}

// TestSFReplayProbeSetLocalFails - obligation probetest.makePeerConnectionFromOffer/post.value-or-error: FAULT
// INJECTION (the overlay named in replay_drivers.json closes the peer connection just before SetLocalDescription, so
// that this library call fails with "connection closed" as it would if it failed for any other reason). On the
// defective tree the failure branch returns the result of pc.Close() - nil - as the error: the caller gets
// (nil, nil), goes on and dereferences the nil peer connection.
func TestSFReplayProbeSetLocalFails(t *testing.T) {
	client, err := webrtc.NewPeerConnection(webrtc.Configuration{})
	if err != nil {
		t.Fatal(err)
	}
	defer client.Close()
	if _, err := client.CreateDataChannel("test", nil); err != nil {
		t.Fatal(err)
	}
	offer, err := client.CreateOffer(nil)
	if err != nil {
		t.Fatal(err)
	}
	done := webrtc.GatheringCompletePromise(client)
	if err := client.SetLocalDescription(offer); err != nil {
		t.Fatal(err)
	}
	<-done
	pc, err := makePeerConnectionFromOffer(client.LocalDescription(), make(chan struct{}))
	if err == nil && pc == nil {
		t.Errorf("REPRODUCED: makePeerConnectionFromOffer returned (nil, nil) after a failed SetLocalDescription")
	}
	if err == nil && pc != nil {
		t.Logf("fault not injected (run with the overlay of replay_drivers.json)")
		pc.Close()
	}
}
