package main

// Replay driver (R3) for obligation broker.clientOffers/safety.panic#1: a legacy-format client request (body starting
// with '{') whose Snowflake-NAT-Type header is not one of the three names. ClientOffers reports the decoding error in
// the response body, the legacy shim does not know that error text and panics ("unknown error"); net/http then
// drops the connection without a response. Input: env SFREPLAY_NAT (default "bogus").

import (
	"bytes"
	"io/ioutil"
	"log"
	"net/http"
	"net/http/httptest"
	"os"
	"testing"
)

func TestSFReplayLegacyPanic(t *testing.T) {
	nat := os.Getenv("SFREPLAY_NAT")
	if nat == "" {
		nat = "bogus"
	}
	ctx := NewBrokerContext(log.New(ioutil.Discard, "", 0))
	i := &IPC{ctx}
	w := httptest.NewRecorder()
	r, _ := http.NewRequest("POST", "snowflake.broker/client", bytes.NewReader([]byte(`{"type":"offer"}`)))
	r.Header.Set("Snowflake-NAT-Type", nat)
	func() {
		defer func() {
			if rec := recover(); rec != nil {
				t.Errorf("REPRODUCED: clientOffers panics: %v", rec)
			}
		}()
		clientOffers(i, w, r)
		t.Logf("status %d", w.Code)
	}()
}
