package snowflake_proxy

// Replay driver for the hand-over window of runSession (DESIGN section 5 item 14): the data channel opens after the
// 20 s timer of runSession has fired but before its pc.Close() has taken effect. The timeout branch returns the slot
// (tokens.ret) AND the OnDataChannel callback starts a handler that returns it again: one get, two rets.
//
// The schedule is forced by overlay, without touching the logic (SFSED, see replay_drivers.json):
//   dataChannelTimeout 20 s -> 2 s, and a 1.5 s sleep right after the "Timed out" log line of the timeout branch,
//   standing for the scheduler pre-empting runSession at that point.
// The remote client (real in-process pion) answers so that its data channel opens about 2.6 s after the offer.

import (
	"bytes"
	"io/ioutil"
	"net"
	"net/http"
	"net/url"
	"strings"
	"sync"
	"testing"
	"time"

	"git.torproject.org/pluggable-transports/snowflake.git/v2/common/event"
	"git.torproject.org/pluggable-transports/snowflake.git/v2/common/messages"
	"git.torproject.org/pluggable-transports/snowflake.git/v2/common/util"
	"github.com/pion/webrtc/v3"
)

type sfFakeBroker struct {
	offer  string
	answer chan string
}

func (b *sfFakeBroker) RoundTrip(req *http.Request) (*http.Response, error) {
	body, _ := ioutil.ReadAll(req.Body)
	var out []byte
	if strings.HasSuffix(req.URL.Path, "/proxy") {
		out, _ = messages.EncodePollResponseWithRelayURL(b.offer, true, "unknown", "", "")
	} else {
		ans, _, err := messages.DecodeAnswerRequest(body)
		if err == nil {
			b.answer <- ans
		}
		out, _ = messages.EncodeAnswerResponse(true)
	}
	return &http.Response{StatusCode: 200, Body: ioutil.NopCloser(bytes.NewReader(out))}, nil
}

func TestSFReplayTimeoutHandover(t *testing.T) {
	if dataChannelTimeout > 5*time.Second {
		t.Skip("dataChannelTimeout not shortened by the overlay")
	}
	client, err := webrtc.NewPeerConnection(webrtc.Configuration{})
	if err != nil {
		t.Fatal(err)
	}
	if _, err := client.CreateDataChannel("x", nil); err != nil {
		t.Fatal(err)
	}
	offer, _ := client.CreateOffer(nil)
	done := webrtc.GatheringCompletePromise(client)
	client.SetLocalDescription(offer)
	<-done
	offerStr, _ := util.SerializeSessionDescription(client.LocalDescription())

	fb := &sfFakeBroker{offer: offerStr, answer: make(chan string, 1)}
	u, _ := url.Parse("http://broker.invalid/")
	broker = &SignalingServer{url: u, transport: fb, keepLocalAddresses: true}
	tokens = newTokens(1)
	config = webrtc.Configuration{}
	sf := &SnowflakeProxy{EventDispatcher: event.NewSnowflakeEventDispatcher(), shutdown: make(chan struct{}), RelayDomainNamePattern: "snowflake.torproject.net$"}
	// the relay is never reached: the handler only has to run and return its slot
	var wg sync.WaitGroup
	tokens.get()
	start := time.Now()
	go sf.runSession("sid")
	ans := <-fb.answer
	desc, err := util.DeserializeSessionDescription(ans)
	if err != nil {
		t.Fatal(err)
	}
	// let the proxy's (shortened) timer fire first, then open the channel inside the forced window
	time.Sleep(2200*time.Millisecond - time.Since(start))
	if err := client.SetRemoteDescription(*desc); err != nil {
		t.Fatal(err)
	}
	// The timeout branch now calls tokens.ret() although the handler started by the callback has already returned the
	// slot. With capacity 1 that second ret parks on the empty slot channel ...
	time.Sleep(4 * time.Second)
	// ... and steals the slot of the next session: after ONE further get a second get must block (capacity 1).
	tokens.get() // session A
	second := make(chan struct{})
	go func() { tokens.get(); close(second) }() // session B: must wait until A is done
	select {
	case <-second:
		t.Fatalf("REPRODUCED: with capacity 1, two sessions hold a slot at once (the slot taken for the first session was released twice); count=%d", tokens.count())
	case <-time.After(1500 * time.Millisecond):
		t.Logf("second get blocks as it should; count=%d", tokens.count())
	}
	_ = net.IPv4zero
	_ = wg
}
