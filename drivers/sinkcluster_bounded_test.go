package sinkcluster

// Bounded stand-in for the distinct-IP journal half of C19 that goes through the real HMAC/SHA-3, HyperLogLog and
// encoding/json (outside the verified code): the journal holds no address text, and the estimate merged over a time
// window equals the number of distinct addresses recorded in the chunks inside that window (exactly, for these small
// sets), for every window built from the chunk boundaries.
// Bound: 5 chunks of 0..40 addresses with repetitions within and across chunks, all 21 windows over chunk boundaries
// (+ two windows that cut a chunk).

import (
	"bytes"
	"fmt"
	"io"
	"testing"
	"time"

	"git.torproject.org/pluggable-transports/snowflake.git/v2/common/ipsetsink"
)

type sfBuf struct{ bytes.Buffer }

func (*sfBuf) Sync() error { return nil }

func TestSFBoundedJournal(t *testing.T) {
	var journal sfBuf
	w := NewClusterWriter(&journal, time.Hour, ipsetsink.NewIPSetSink("demo-key"))
	sizes := []int{3, 0, 40, 17, 1}
	type chunk struct {
		start, end time.Time
		addrs      map[string]bool
	}
	var chunks []chunk
	next := 0
	for ci, n := range sizes {
		c := chunk{start: w.lastWriteTime, addrs: map[string]bool{}}
		for k := 0; k < n; k++ {
			a := fmt.Sprintf("10.%d.%d.%d", next/65536%256, next/256%256, next%256)
			if k%5 == 4 && next > 2 {
				a = fmt.Sprintf("10.0.0.%d", (next-2)%256) // an address seen before (same or earlier chunk)
			}
			next++
			c.addrs[a] = true
			w.AddIPToSet(a)
			if k%7 == 0 {
				w.AddIPToSet(a) // immediate repetition
			}
		}
		time.Sleep(2 * time.Millisecond)
		w.WriteIPSetToDisk()
		c.end = w.lastWriteTime
		chunks = append(chunks, c)
		_ = ci
	}
	if bytes.Contains(journal.Bytes(), []byte("10.0.0.")) || bytes.Contains(journal.Bytes(), []byte("10.")) && bytes.Contains(journal.Bytes(), []byte(".0.1\"")) {
		t.Errorf("the journal contains address text")
	}
	count := func(from, to time.Time) (uint64, int64) {
		r, err := NewClusterCounter(from, to).Count(io.Reader(bytes.NewReader(journal.Bytes())))
		if err != nil {
			t.Fatal(err)
		}
		return r.Sum, r.ChunkIncluded
	}
	n := 0
	for i := 0; i < len(chunks); i++ {
		for j := i; j < len(chunks); j++ {
			want := map[string]bool{}
			for k := i; k <= j; k++ {
				for a := range chunks[k].addrs {
					want[a] = true
				}
			}
			sum, inc := count(chunks[i].start, chunks[j].end)
			n++
			if inc != int64(j-i+1) || sum != uint64(len(want)) {
				t.Errorf("window over chunks %d..%d: %d chunks included (want %d), estimate %d (want %d distinct)", i, j, inc, j-i+1, sum, len(want))
			}
		}
	}
	// windows that cut a chunk: the cut chunk is left out
	sum, inc := count(chunks[1].start.Add(-time.Millisecond), chunks[2].end.Add(-time.Microsecond))
	n++
	if inc != 1 || sum != uint64(len(chunks[1].addrs)) {
		t.Errorf("window cutting chunk 2 at its end: %d chunks, estimate %d", inc, sum)
	}
	sum, inc = count(chunks[2].start.Add(time.Microsecond), chunks[3].end)
	n++
	if inc != 1 || sum != uint64(len(chunks[3].addrs)) {
		t.Errorf("window cutting chunk 2 at its start: %d chunks, estimate %d (want %d)", inc, sum, len(chunks[3].addrs))
	}
	t.Logf("%d windows", n)
}
