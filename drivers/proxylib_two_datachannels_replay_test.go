package snowflake_proxy

import (
	"net"
	"sync"
	"testing"
	"time"

	"git.torproject.org/pluggable-transports/snowflake.git/v2/common/event"
	"github.com/pion/webrtc/v3"
)

// Replay driver for obligations proxy/lib.(*SnowflakeProxy).makePeerConnectionFromOffer$1/safety.close#1 and
// .../post.at-most-one-handler-per-peer-connection: a remote client that opens TWO data channels on one peer
// connection (real in-process pion client). On the defective tree the second OnDataChannel callback panics with
// "close of closed channel" (the test process dies) or, without the panic, a second handler is started for one slot.
func TestSFReplayTwoDataChannels(t *testing.T) {
	sf := &SnowflakeProxy{EventDispatcher: event.NewSnowflakeEventDispatcher(), shutdown: make(chan struct{})}
	tokens = newTokens(1)
	tokens.get()
	client, err := webrtc.NewPeerConnection(webrtc.Configuration{})
	if err != nil {
		t.Fatal(err)
	}
	for _, l := range []string{"a", "b"} {
		if _, err := client.CreateDataChannel(l, nil); err != nil {
			t.Fatal(err)
		}
	}
	offer, err := client.CreateOffer(nil)
	if err != nil {
		t.Fatal(err)
	}
	done := webrtc.GatheringCompletePromise(client)
	if err := client.SetLocalDescription(offer); err != nil {
		t.Fatal(err)
	}
	<-done
	dataChan := make(chan struct{})
	handled := make(chan struct{}, 4)
	var claim sync.Once
	pc, err := sf.makePeerConnectionFromOffer(client.LocalDescription(), webrtc.Configuration{}, dataChan, &claim,
		func(conn *webRTCConn, remoteAddr net.Addr) { handled <- struct{}{} })
	if err != nil {
		t.Fatal(err)
	}
	if err := client.SetRemoteDescription(*pc.LocalDescription()); err != nil {
		t.Fatal(err)
	}
	n := 0
	timeout := time.After(8 * time.Second)
	for n < 2 {
		select {
		case <-handled:
			n++
			t.Logf("handler activation %d", n)
		case <-timeout:
			t.Logf("not reproduced: %d handler activation(s) for one peer connection", n)
			return
		}
	}
	t.Errorf("REPRODUCED: two handler activations for one slot (tokens.count=%d)", tokens.count())
}
