package turbotunnel

import (
	"context"
	"errors"
	"net"
	"runtime"
	"testing"
	"time"
)

type fakeConn struct{ closed chan struct{} }

func (f *fakeConn) ReadFrom(p []byte) (int, net.Addr, error) {
	<-f.closed
	return 0, nil, errors.New("read: closed")
}
func (f *fakeConn) WriteTo(p []byte, a net.Addr) (int, error) { return 0, errors.New("write failed") }
func (f *fakeConn) Close() error {
	select {
	case <-f.closed:
	default:
		close(f.closed)
	}
	return nil
}
func (f *fakeConn) LocalAddr() net.Addr              { return nil }
func (f *fakeConn) SetDeadline(time.Time) error      { return nil }
func (f *fakeConn) SetReadDeadline(time.Time) error  { return nil }
func (f *fakeConn) SetWriteDeadline(time.Time) error { return nil }

type da struct{}

func (da) Network() string { return "d" }
func (da) String() string  { return "d" }

// Replay driver for obligations common/turbotunnel.(*RedialPacketConn).exchange/go.exchange$1.error-report-cannot-block
// (and $2): a carrier whose WriteTo fails and whose ReadFrom fails only once it is closed. With unbuffered error
// channels the reader pump parks forever on its error report, one goroutine per redial.
func TestSFReplayRedialLeak(t *testing.T) {
	dials := 0
	before := runtime.NumGoroutine()
	c := NewRedialPacketConn(da{}, da{}, func(ctx context.Context) (net.PacketConn, error) {
		dials++
		if dials > 50 {
			<-ctx.Done()
			return nil, errors.New("stop")
		}
		return &fakeConn{closed: make(chan struct{})}, nil
	})
	for i := 0; i < 200; i++ {
		c.WriteTo([]byte("x"), nil)
		time.Sleep(2 * time.Millisecond)
	}
	time.Sleep(200 * time.Millisecond)
	t.Logf("dials=%d goroutines before=%d after=%d", dials, before, runtime.NumGoroutine())
	c.Close()
	time.Sleep(200 * time.Millisecond)
	after := runtime.NumGoroutine()
	t.Logf("after Close: goroutines=%d", after)
	if after > before+5 {
		t.Errorf("REPRODUCED: %d goroutines retained after %d redials and Close (before: %d)", after-before, dials, before)
	}
}
