package main

import (
	"container/heap"
	"io/ioutil"
	"log"
	"testing"
	"time"

	"git.torproject.org/pluggable-transports/snowflake.git/v2/common/messages"
)

// 09a (C04): poll timer fires, client pops the entry before the timeout branch gets the lock.
// Replay driver (R6, lock as scheduler) for obligation broker.(*BrokerContext).Broker$1/post.answers-its-poll-exactly-once
// on the path (timer case, snowflake.index == -1).
func TestSFReplayPollRace(t *testing.T) {
	ctx := NewBrokerContext(log.New(ioutil.Discard, "", 0))
	go ctx.Broker()
	got := make(chan *ClientOffer, 1)
	go func() { got <- ctx.RequestOffer("sid", "standalone", NATUnrestricted, 0) }()
	time.Sleep(9500 * time.Millisecond)
	ctx.snowflakeLock.Lock() // hold the matching lock across the poll timer's expiry
	time.Sleep(1000 * time.Millisecond)
	s := heap.Pop(ctx.snowflakes).(*Snowflake) // exactly what matchSnowflake does under the lock
	ctx.snowflakeLock.Unlock()
	sent := make(chan struct{})
	go func() { s.offerChannel <- &ClientOffer{}; close(sent) }() // ClientOffers' next statement
	select {
	case <-sent:
		t.Logf("client offer consumed")
	case <-time.After(2 * time.Second):
		t.Errorf("REPRODUCED: the client's offer send blocks forever (no receiver)")
	}
	select {
	case o := <-got:
		t.Logf("proxy poll answered: %v", o)
	case <-time.After(2 * time.Second):
		t.Errorf("REPRODUCED: the proxy poll is never answered")
	}
}

// 09b (C04): answer posted just after the client's timer fired.
// Replay driver (R6) for obligation broker.(*IPC).ProxyAnswers/block.send#1.
func TestSFReplayAnswerRace(t *testing.T) {
	ctx := NewBrokerContext(log.New(ioutil.Discard, "", 0))
	i := &IPC{ctx}
	go ctx.Broker()
	go func() { ctx.RequestOffer("s1", "standalone", NATUnrestricted, 0) }()
	for {
		ctx.snowflakeLock.Lock()
		n := len(ctx.idToSnowflake)
		ctx.snowflakeLock.Unlock()
		if n == 1 {
			break
		}
		time.Sleep(10 * time.Millisecond)
	}
	req := &messages.ClientPollRequest{Offer: "offer", NAT: "unknown"}
	body, _ := req.EncodeClientPollRequest()
	clientDone := make(chan string, 1)
	go func() {
		var resp []byte
		i.ClientOffers(messages.Arg{Body: body}, &resp)
		clientDone <- string(resp)
	}()
	time.Sleep(9500 * time.Millisecond)
	ctx.snowflakeLock.Lock() // scheduler: hold the matching lock across the client's 10 s timer
	ansBody, _ := messages.EncodeAnswerRequest("answer", "s1")
	ansDone := make(chan error, 1)
	go func() {
		var resp []byte
		ansDone <- i.ProxyAnswers(messages.Arg{Body: ansBody}, &resp)
	}()
	time.Sleep(1000 * time.Millisecond) // /answer queued on the lock first, then the timed-out client
	ctx.snowflakeLock.Unlock()
	select {
	case r := <-clientDone:
		t.Logf("client got: %s", r)
	case <-time.After(3 * time.Second):
		t.Logf("client BLOCKED")
	}
	select {
	case err := <-ansDone:
		t.Logf("/answer completed: %v", err)
	case <-time.After(12 * time.Second): // the repaired handler gives up after ClientTimeout (10 s)
		t.Errorf("REPRODUCED: the /answer handler never completes (send on answerChannel with no receiver)")
	}
}
