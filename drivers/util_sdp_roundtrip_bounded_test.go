package util

// Bounded stand-in for the serialise/deserialise round trip of session descriptions through the real encoding/json and
// pion's SDPType marshalling (C13; outside the verified code). Bound: the four SDP types x six SDP texts (empty, plain,
// a real multi-line description, quotes and backslashes, control bytes, 64 KiB).

import (
	"strings"
	"testing"

	"github.com/pion/webrtc/v3"
)

func TestSFBoundedSDPRoundTrip(t *testing.T) {
	real := "v=0\r\no=- 1 2 IN IP4 127.0.0.1\r\ns=-\r\nt=0 0\r\nm=application 9 UDP/DTLS/SCTP webrtc-datachannel\r\nc=IN IP4 0.0.0.0\r\na=candidate:1 1 udp 2130706431 192.168.1.7 5000 typ host\r\n"
	sdps := []string{"", "x", real, `q"uo\te`, "ctl\x01\x7f", strings.Repeat("a=x\r\n", 13000)}
	types := []webrtc.SDPType{webrtc.SDPTypeOffer, webrtc.SDPTypePranswer, webrtc.SDPTypeAnswer, webrtc.SDPTypeRollback}
	n := 0
	for _, ty := range types {
		for _, sdp := range sdps {
			d := &webrtc.SessionDescription{Type: ty, SDP: sdp}
			s, err := SerializeSessionDescription(d)
			if err != nil {
				t.Fatal(err)
			}
			got, err := DeserializeSessionDescription(s)
			n++
			if err != nil || got == nil || got.Type != ty || got.SDP != sdp {
				t.Fatalf("round trip failed for type %v, %d bytes of sdp: %v", ty, len(sdp), err)
			}
		}
	}
	for _, bad := range []string{"", "x", "[]", `{"type":1,"sdp":""}`, `{"type":"offer","sdp":5}`, `{"type":"offer"}`, `{"sdp":"x"}`, `{"type":"bogus","sdp":"x"}`, `{"type":null,"sdp":null}`} {
		if d, err := DeserializeSessionDescription(bad); err == nil || d != nil {
			t.Errorf("%q accepted", bad)
		}
	}
	t.Logf("%d round trips", n)
}
