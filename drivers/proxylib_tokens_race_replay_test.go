package snowflake_proxy

// Replay driver (R5, `go test -race`) for proxy/lib.(*SignalingServer).pollOffer/guard.tokens_t.clients#1:
// tokens.count() has a value receiver, so every call copies *tokens with a plain read of `clients` while
// get()/ret() update it with sync/atomic from other goroutines.

import (
	"sync"
	"testing"
)

func TestSFReplayTokensCountRace(t *testing.T) {
	tk := newTokens(0)
	var wg sync.WaitGroup
	wg.Add(1)
	go func() {
		defer wg.Done()
		for i := 0; i < 1000; i++ {
			tk.get()
			tk.ret()
		}
	}()
	var sum int64
	for i := 0; i < 1000; i++ {
		sum += tk.count() // exactly the expression pollOffer evaluates: tokens.count()
	}
	wg.Wait()
	_ = sum
}
