package snowflake_server

import (
	"bufio"
	"encoding/binary"
	"net"
	"testing"
	"time"

	"git.torproject.org/pluggable-transports/snowflake.git/v2/common/encapsulation"
	"git.torproject.org/pluggable-transports/snowflake.git/v2/common/turbotunnel"
	"git.torproject.org/pluggable-transports/snowflake.git/v2/common/websocketconn"
	"github.com/gorilla/websocket"
	"github.com/xtaci/kcp-go/v5"
	"github.com/xtaci/smux"
)

type xAddr struct{}

func (xAddr) Network() string { return "x" }
func (xAddr) String() string  { return "x" }

type encPC struct {
	c  net.Conn
	bw *bufio.Writer
}

func (p *encPC) ReadFrom(b []byte) (int, net.Addr, error) {
	d, err := encapsulation.ReadData(p.c)
	if err != nil {
		return 0, xAddr{}, err
	}
	return copy(b, d), xAddr{}, nil
}
func (p *encPC) WriteTo(b []byte, _ net.Addr) (int, error) {
	if _, err := encapsulation.WriteData(p.bw, b); err != nil {
		return 0, err
	}
	return len(b), p.bw.Flush()
}
func (p *encPC) Close() error                     { return p.c.Close() }
func (p *encPC) LocalAddr() net.Addr              { return xAddr{} }
func (p *encPC) SetDeadline(time.Time) error      { return nil }
func (p *encPC) SetReadDeadline(time.Time) error  { return nil }
func (p *encPC) SetWriteDeadline(time.Time) error { return nil }

// Replay driver for obligation server/lib.(*SnowflakeListener).acceptStreams/call.queueConn.remote-addr-never-nil:
// through the exported API (Transport.Listen / Accept) with a model client; the session's ClientID is pushed
// out of the ring map by 10240 other Sets before its first packet arrives.
func TestSFReplayNilRemoteAddr(t *testing.T) {
	tr := NewSnowflakeServer(nil)
	addr, _ := net.ResolveTCPAddr("tcp", "127.0.0.1:18766")
	ln, err := tr.Listen(addr)
	if err != nil {
		t.Fatal(err)
	}
	defer ln.Close()
	ws, _, err := websocket.DefaultDialer.Dial("ws://127.0.0.1:18766/?client_ip=1.2.3.4", nil)
	if err != nil {
		t.Fatal(err)
	}
	conn := websocketconn.New(ws)
	id := turbotunnel.NewClientID()
	conn.Write(turbotunnel.Token[:])
	conn.Write(id[:])
	time.Sleep(300 * time.Millisecond) // carrier registered its client_ip in the ring map
	// 10240 other carriers start before this session's first KCP packet arrives
	for k := 0; k < clientIDAddrMapCapacity; k++ {
		var other turbotunnel.ClientID
		binary.BigEndian.PutUint64(other[:], uint64(k)+1)
		clientIDAddrMap.Set(other, ClientMapAddr("9.9.9.9:1"))
	}
	pc := &encPC{c: conn, bw: bufio.NewWriter(conn)}
	kc, err := kcp.NewConn2(xAddr{}, nil, 0, 0, pc)
	if err != nil {
		t.Fatal(err)
	}
	kc.SetStreamMode(true)
	cfg := smux.DefaultConfig()
	cfg.Version = 2
	sess, err := smux.Client(kc, cfg)
	if err != nil {
		t.Fatal(err)
	}
	st, err := sess.OpenStream()
	if err != nil {
		t.Fatal(err)
	}
	st.Write([]byte("hello"))
	type res struct {
		c   net.Conn
		err error
	}
	ch := make(chan res, 1)
	go func() { c, err := ln.Accept(); ch <- res{c, err} }()
	select {
	case r := <-ch:
		if r.err != nil {
			t.Fatal(r.err)
		}
		if r.c.RemoteAddr() == nil {
			t.Errorf("REPRODUCED: accepted connection has RemoteAddr() == nil")
		}
		func() {
			defer func() {
				if rec := recover(); rec != nil {
					t.Logf("what server.go handleConn does next -> PANIC: %v", rec)
				}
			}()
			_ = r.c.RemoteAddr().String()
		}()
	case <-time.After(10 * time.Second):
		t.Logf("no accept within 10s")
	}
}
