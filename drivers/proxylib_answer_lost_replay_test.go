package snowflake_proxy

// Replay driver for the second hand-over window of runSession: the broker has passed the proxy's answer on to the
// client, the client's data channel opens (the OnDataChannel callback claims the session and starts the handler, which
// returns the slot when it ends), and only then does the proxy's POST to /answer fail (response lost, connection cut,
// body unreadable). The error branch of runSession closes the peer connection and calls tokens.ret() without
// consulting the claim: one get, two rets.
//
// No overlay is needed: the environment is the http.RoundTripper handed to the real SignalingServer. It delivers the
// answer to an in-process pion client, waits until that client's data channel is open, and then reports a transport
// error.

import (
	"errors"
	"io/ioutil"
	"net/http"
	"net/url"
	"strings"
	"testing"
	"time"

	"bytes"

	"git.torproject.org/pluggable-transports/snowflake.git/v2/common/event"
	"git.torproject.org/pluggable-transports/snowflake.git/v2/common/messages"
	"git.torproject.org/pluggable-transports/snowflake.git/v2/common/util"
	"github.com/pion/webrtc/v3"
)

type sfLossyBroker struct {
	offer  string
	client *webrtc.PeerConnection
	opened chan struct{}
	t      *testing.T
}

func (b *sfLossyBroker) RoundTrip(req *http.Request) (*http.Response, error) {
	body, _ := ioutil.ReadAll(req.Body)
	if strings.HasSuffix(req.URL.Path, "/proxy") {
		out, _ := messages.EncodePollResponseWithRelayURL(b.offer, true, "unknown", "", "")
		return &http.Response{StatusCode: 200, Body: ioutil.NopCloser(bytes.NewReader(out))}, nil
	}
	ans, _, err := messages.DecodeAnswerRequest(body)
	if err != nil {
		b.t.Errorf("answer request: %v", err)
		return nil, err
	}
	desc, err := util.DeserializeSessionDescription(ans)
	if err != nil {
		b.t.Errorf("answer: %v", err)
		return nil, err
	}
	// the broker hands the answer to the client, which connects at once ...
	if err := b.client.SetRemoteDescription(*desc); err != nil {
		b.t.Errorf("client: %v", err)
		return nil, err
	}
	select {
	case <-b.opened:
	case <-time.After(15 * time.Second):
		b.t.Errorf("the client's data channel did not open")
	}
	time.Sleep(300 * time.Millisecond) // the proxy's OnDataChannel/OnOpen callbacks have run
	// ... and the response to the proxy is lost
	return nil, errors.New("connection reset by peer")
}

func TestSFReplayAnswerLostAfterOpen(t *testing.T) {
	client, err := webrtc.NewPeerConnection(webrtc.Configuration{})
	if err != nil {
		t.Fatal(err)
	}
	dc, err := client.CreateDataChannel("x", nil)
	if err != nil {
		t.Fatal(err)
	}
	opened := make(chan struct{})
	dc.OnOpen(func() { close(opened) })
	offer, _ := client.CreateOffer(nil)
	done := webrtc.GatheringCompletePromise(client)
	client.SetLocalDescription(offer)
	<-done
	offerStr, _ := util.SerializeSessionDescription(client.LocalDescription())

	fb := &sfLossyBroker{offer: offerStr, client: client, opened: opened, t: t}
	u, _ := url.Parse("http://broker.invalid/")
	broker = &SignalingServer{url: u, transport: fb, keepLocalAddresses: true}
	tokens = newTokens(1)
	config = webrtc.Configuration{}
	sf := &SnowflakeProxy{EventDispatcher: event.NewSnowflakeEventDispatcher(), shutdown: make(chan struct{}), RelayDomainNamePattern: "snowflake.torproject.net$"}
	tokens.get()
	ended := make(chan struct{})
	go func() { sf.runSession("sid"); close(ended) }()
	// runSession returns - or, when it releases the slot a second time, parks in tokens.ret() on the empty slot channel
	// until the next session's get feeds it. Either way the handler has returned its slot well within this time.
	select {
	case <-ended:
		time.Sleep(4 * time.Second)
	case <-time.After(8 * time.Second):
		t.Logf("runSession has not returned 8 s after the failed answer (parked in its own tokens.ret()?)")
	}
	// With capacity 1: after ONE further get a second get must block.
	tokens.get() // session A
	second := make(chan struct{})
	go func() { tokens.get(); close(second) }() // session B: must wait until A is done
	select {
	case <-second:
		t.Fatalf("REPRODUCED: with capacity 1, two sessions hold a slot at once (the slot of the session whose answer was lost was released twice); count=%d", tokens.count())
	case <-time.After(1500 * time.Millisecond):
		t.Logf("second get blocks as it should; count=%d", tokens.count())
	}
}
