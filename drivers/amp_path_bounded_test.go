package amp

// Bounded stand-in for the parts of C11 that go through the real base64, SHA-256, base32 and idna (outside the
// verified code): DecodePath(EncodePath(d)) == d with the real random padding (and with extra directory levels in
// front), and domainPrefix / CacheURL on the worked examples of the AMP cache URL specification.
// Bound: payload lengths 0..300 x 5 encodings each; 12 domains; 6 URLs.

import (
	"bytes"
	"net/url"
	"strings"
	"testing"
)

func TestSFBoundedAMPPath(t *testing.T) {
	n := 0
	for l := 0; l <= 300; l++ {
		d := make([]byte, l)
		for i := range d {
			d[i] = byte(i*31 + l)
		}
		for k := 0; k < 5; k++ {
			p := EncodePath(d)
			if !strings.HasPrefix(p, "0") || strings.Count(p, "/") != 1 {
				t.Fatalf("unexpected path shape %q", p)
			}
			for _, v := range []string{p, "0junk/more/" + p[strings.Index(p, "/")+1:]} {
				got, err := DecodePath(v)
				n++
				if err != nil || !bytes.Equal(got, d) {
					t.Fatalf("path round trip failed for %d bytes: %v", l, err)
				}
			}
		}
	}
	for _, bad := range []string{"", "1abc/x", "0nodata", "0x/!!!"} {
		if _, err := DecodePath(bad); err == nil {
			t.Errorf("%q accepted", bad)
		}
	}
	// https://amp.dev/documentation/guides-and-tutorials/learn/amp-caches-and-cors/amp-cache-urls/ (worked examples)
	prefixes := map[string]string{
		"example.com":                     "example-com",
		"foo.example.com":                 "foo-example-com",
		"foo-example.com":                 "foo--example-com",
		"xn--57hw060o.com":                "xn---com-p33b41770a",
		"en-us.example.com":               "0-en--us-example-com-0",
		"snowflake-broker.torproject.net": "snowflake--broker-torproject-net",
	}
	for dom, want := range prefixes {
		if got := domainPrefix(dom); got != want {
			t.Errorf("domainPrefix(%q) = %q, want %q", dom, got, want)
		}
	}
	for _, dom := range []string{strings.Repeat("a", 70) + ".com", "a.b.c.d.e.f.g.h.i.j.k.l.m.n.o.p.q.r.s.t.u.v.w.x.y.z.aa.bb.cc.dd.ee.ff.example.com", "xn--bcher-kva.example", "EXAMPLE.com", "a..b", "-"} {
		p := domainPrefix(dom)
		n++
		if len(p) > 63 || len(p) == 0 || strings.Contains(p, ".") {
			t.Errorf("domainPrefix(%q) = %q is not a single dot-free label of at most 63 bytes", dom, p)
		}
	}
	cache, _ := url.Parse("https://cdn.ampproject.org/")
	for _, c := range []struct{ pub, want string }{
		{"https://example.com/amp/client/0abc/def?x=1#f", "https://example-com.cdn.ampproject.org/c/s/example.com/amp/client/0abc/def?x=1#f"},
		{"http://example.com/a", "https://example-com.cdn.ampproject.org/c/example.com/a"},
		{"https://example.com:443/a", "https://example-com.cdn.ampproject.org/c/s/example.com/a"},
	} {
		pub, _ := url.Parse(c.pub)
		got, err := CacheURL(pub, cache, "c")
		n++
		if err != nil || got.String() != c.want {
			t.Errorf("CacheURL(%q) = %v, %v; want %q", c.pub, got, err, c.want)
		}
	}
	for _, pubs := range []string{"ftp://example.com/", "https://user@example.com/", "https://example.com:8443/"} {
		pub, _ := url.Parse(pubs)
		if _, err := CacheURL(pub, cache, "c"); err == nil {
			t.Errorf("CacheURL(%q) accepted", pubs)
		}
	}
	t.Logf("%d checks", n)
}
