package snowflake_client

// Replay drivers for the client peer collection (C15):
//   TestSFReplayEndTwice         client/lib.(*Peers).End/safety.close#1, #2   (End called twice: close of a closed channel)
//   TestSFReplayCollectEndHang   client/lib.(*Peers).Collect/block.send#1, block.under-lock#1
//                                (a queued peer closes on its own; the next Collect parks on the full hand-over channel
//                                while holding collectLock; End then waits for that lock forever)
//   TestSFReplayConnectNilPC     client/lib.(*WebRTCPeer).connect/safety.nil   (unusable ICE configuration)

import (
	"testing"
	"time"

	"github.com/pion/webrtc/v3"
)

type sfTongue struct{}

func (sfTongue) Catch() (*WebRTCPeer, error) {
	return &WebRTCPeer{closed: make(chan struct{})}, nil
}
func (sfTongue) GetMax() int { return 1 }

func TestSFReplayEndTwice(t *testing.T) {
	p, _ := NewPeers(sfTongue{})
	p.End()
	defer func() {
		if r := recover(); r != nil {
			t.Fatalf("second End panicked: %v", r)
		}
	}()
	p.End()
}

func TestSFReplayCollectEndHang(t *testing.T) {
	p, _ := NewPeers(sfTongue{})
	a, err := p.Collect()
	if err != nil {
		t.Fatal(err)
	}
	a.Close() // the queued peer goes stale on its own
	go p.Collect()
	time.Sleep(300 * time.Millisecond)
	ended := make(chan struct{})
	go func() { p.End(); close(ended) }()
	select {
	case <-ended:
	case <-time.After(3 * time.Second):
		t.Fatalf("End did not return within 3 s: Collect is parked on the full hand-over channel holding collectLock")
	}
}

func TestSFReplayConnectNilPC(t *testing.T) {
	defer func() {
		if r := recover(); r != nil {
			t.Fatalf("NewWebRTCPeerWithEvents panicked on an unusable ICE configuration: %v", r)
		}
	}()
	cfg := &webrtc.Configuration{ICEServers: []webrtc.ICEServer{{URLs: []string{"bogus"}}}}
	_, err := NewWebRTCPeerWithEvents(cfg, &BrokerChannel{}, nil)
	if err == nil {
		t.Fatalf("expected an error")
	}
}
