package main

// Replay drivers (R5, run under `go test -race`) for guarded-by obligations of the broker metrics:
//   TestSFReplayRaceRoundtrip  broker.(*IPC).ClientOffers/guard.Metrics.clientRoundtripEstimate#1
//                              (N concurrently matched and answered clients write the field without Metrics.lock)
//   TestSFReplayRaceZero       broker.(*Metrics).logMetrics/guard.call.zeroMetrics#1
//                              (the hourly zeroMetrics runs without Metrics.lock while handlers update the counters)

import (
	"fmt"
	"io/ioutil"
	"log"
	"sync"
	"testing"
	"time"

	"git.torproject.org/pluggable-transports/snowflake.git/v2/common/messages"
)

func TestSFReplayRaceRoundtrip(t *testing.T) {
	ctx := NewBrokerContext(log.New(ioutil.Discard, "", 0))
	i := &IPC{ctx}
	go ctx.Broker()
	var wg, cw sync.WaitGroup
	const N = 8
	for k := 0; k < N; k++ {
		wg.Add(1)
		go func(k int) {
			defer wg.Done()
			sid := fmt.Sprintf("sid%d", k)
			body, _ := messages.EncodeProxyPollRequestWithRelayPrefix(sid, "standalone", "unrestricted", 0, "")
			var resp []byte
			i.ProxyPolls(messages.Arg{Body: body, RemoteAddr: "1.2.3.4:5"}, &resp)
			ans, _ := messages.EncodeAnswerRequest("answer", sid)
			var r2 []byte
			i.ProxyAnswers(messages.Arg{Body: ans}, &r2)
		}(k)
	}
	for {
		ctx.snowflakeLock.Lock()
		n := ctx.snowflakes.Len()
		ctx.snowflakeLock.Unlock()
		if n == N {
			break
		}
		time.Sleep(5 * time.Millisecond)
	}
	for k := 0; k < N; k++ {
		cw.Add(1)
		go func() {
			defer cw.Done()
			req := &messages.ClientPollRequest{Offer: "offer", NAT: "unknown"}
			body, _ := req.EncodeClientPollRequest()
			var resp []byte
			i.ClientOffers(messages.Arg{Body: body}, &resp)
		}()
	}
	wg.Wait()
	cw.Wait()
}

// Run with SFSED='metrics.go|s/60 \* 60 \* 24 \* time.Second/20 * time.Millisecond/' so that the real logMetrics goroutine
// started by NewMetrics ticks during the test.
func TestSFReplayRaceZero(t *testing.T) {
	if metricsResolution > time.Second {
		t.Skip("metricsResolution not shortened by the overlay")
	}
	m, err := NewMetrics(log.New(ioutil.Discard, "", 0))
	if err != nil {
		t.Fatal(err)
	}
	deadline := time.Now().Add(300 * time.Millisecond)
	for time.Now().Before(deadline) {
		m.lock.Lock()
		m.proxyIdleCount++
		m.lock.Unlock()
	}
}

// TestSFReplayRaceGeoip  broker.(*Metrics).LoadGeoipDatabases/guard.Metrics.geoipdb#1
// (the SIGHUP goroutine reloads the databases while poll handlers read m.geoipdb under Metrics.lock)
func TestSFReplayRaceGeoip(t *testing.T) {
	m, err := NewMetrics(log.New(ioutil.Discard, "", 0))
	if err != nil {
		t.Fatal(err)
	}
	if err := m.LoadGeoipDatabases("test_geoip", "test_geoip6"); err != nil {
		t.Fatal(err)
	}
	done := make(chan struct{})
	go func() {
		for k := 0; k < 20; k++ {
			m.LoadGeoipDatabases("test_geoip", "test_geoip6") // what the SIGHUP handler does
		}
		close(done)
	}()
	for k := 0; k < 2000; k++ {
		m.lock.Lock()
		m.UpdateCountryStats(fmt.Sprintf("1.2.%d.%d", k/250, k%250), "standalone", "unknown") // what ProxyPolls does
		m.lock.Unlock()
	}
	<-done
}
