package safelog

// Bounded stand-in for the half of C07 that no contract can state (what the regular expressions match):
// every line built from up to three addresses (six forms: IPv4, IPv4:port, bracketed IPv6 with port, compressed
// IPv6, full IPv6, IPv4-embedded IPv6) separated and surrounded by the delimiters of the property (line boundary,
// space, tab, comma, parentheses, "=", ": ") is scrubbed of every address, both written through a LogScrubber and handed to Scrub directly without a line
// terminator (as common/event does with error texts).
// Bound: <= 3 addresses per line, 6 forms, 7 separators, 3 prefixes, 3 suffixes (about 40 000 lines).

import (
	"bytes"
	"strings"
	"testing"
)

func TestSFBoundedScrubGrammar(t *testing.T) {
	addrs := []string{"1.2.3.4", "203.0.113.77:4433", "[2001:db8::1]:443", "2001:db8::2", "2001:db8:1:2:3:4:5:6", "::ffff:198.51.100.9"}
	// what must not survive: the distinctive part of each address
	marks := []string{"1.2.3.4", "203.0.113.77", "2001:db8::1", "2001:db8::2", "2001:db8:1:2:3:4:5:6", "198.51.100.9"}
	seps := []string{" ", "\t", ", ", " (", ") ", "=", " and "}
	pres := []string{"", "client ", "addr="}
	sufs := []string{"", " done", ")"}
	bad := 0
	check := func(line string, used []int) {
		var out bytes.Buffer
		ls := &LogScrubber{Output: &out}
		ls.Write([]byte(line + "\n"))
		// the same line handed to Scrub directly, without a line terminator (as common/event does with error texts)
		direct := string(Scrub([]byte(line)))
		for _, k := range used {
			if strings.Contains(direct, marks[k]) {
				bad++
				if bad <= 5 {
					t.Errorf("address %q survives a direct Scrub: %q -> %q", marks[k], line, direct)
				}
				return
			}
		}
		for _, k := range used {
			if strings.Contains(out.String(), marks[k]) {
				bad++
				if bad <= 5 {
					t.Errorf("address %q survives: %q -> %q", marks[k], line, strings.TrimSuffix(out.String(), "\n"))
				}
				return
			}
		}
	}
	n := 0
	for _, pre := range pres {
		for _, suf := range sufs {
			for a := range addrs {
				check(pre+addrs[a]+suf, []int{a})
				n++
				for _, s1 := range seps {
					for b := range addrs {
						check(pre+addrs[a]+s1+addrs[b]+suf, []int{a, b})
						n++
						for _, s2 := range seps[:4] {
							for c := range addrs[:3] {
								check(pre+addrs[a]+s1+addrs[b]+s2+addrs[c]+suf, []int{a, b, c})
								n++
							}
						}
					}
				}
			}
		}
	}
	t.Logf("%d lines, %d with a surviving address", n, bad)
	if bad > 0 {
		t.Fatalf("%d of %d lines leak an address", bad, n)
	}
}

// TestSFBoundedScrubShapes: second bounded stand-in for the regular-expression half of C07 - the textual SHAPES of one
// address. Every placement of the "::" compression in an 8-group IPv6 address and in the 6-group prefix of an
// IPv4-embedded one (and the uncompressed forms), with 1- and 4-digit groups, lower and upper case, bare, bracketed and
// bracketed with a port, in three contexts; plus IPv4 with every octet width. Bound: about 3 000 lines, one address each.
func TestSFBoundedScrubShapes(t *testing.T) {
	type shape struct{ text, mark string }
	var shapes []shape
	hex4 := []string{"2001", "db8a", "85a3", "1f2e", "8a2e", "3707", "7334", "beef"}
	hex1 := []string{"2", "d", "8", "1", "a", "3", "7", "b"}
	build := func(groups []string, tail string) {
		// tail: "" or a dotted quad that follows the groups
		n := len(groups)
		join := func(g []string) string { return strings.Join(g, ":") }
		full := join(groups)
		if tail != "" {
			full += ":" + tail
		}
		shapes = append(shapes, shape{full, full})
		for s := 0; s <= n; s++ {
			for l := 1; s+l <= n; l++ {
				txt := join(groups[:s]) + "::" + join(groups[s+l:])
				if tail != "" {
					if s+l == n {
						txt += tail
					} else {
						txt += ":" + tail
					}
				}
				shapes = append(shapes, shape{txt, txt})
			}
		}
	}
	for _, hs := range [][]string{hex4, hex1} {
		build(hs, "")
		build(hs[:6], "192.0.2.33")
		up := make([]string, len(hs))
		for i := range hs {
			up[i] = strings.ToUpper(hs[i])
		}
		build(up, "")
		build(up[:6], "203.0.113.7")
	}
	build([]string{"0", "0", "0", "0", "0", "ffff"}, "198.51.100.9")
	build([]string{"64", "ff9b", "0", "0", "0", "0"}, "198.51.100.10")
	bad, n := 0, 0
	try := func(line, mark string) {
		n++
		var out bytes.Buffer
		ls := &LogScrubber{Output: &out}
		ls.Write([]byte(line + "\n"))
		direct := string(Scrub([]byte(line)))
		// the address counts as surviving when any three consecutive characters of it containing a digit pair remain
		// next to each other is too weak a test; we demand that the full text is gone AND no dotted quad and no run of
		// three colon-separated groups of it is left
		leak := func(s string) bool {
			if strings.Contains(s, mark) {
				return true
			}
			parts := strings.Split(mark, ":")
			for i := 0; i+3 <= len(parts); i++ {
				if parts[i] != "" && parts[i+1] != "" && parts[i+2] != "" && strings.Contains(s, parts[i]+":"+parts[i+1]+":"+parts[i+2]) {
					return true
				}
			}
			if k := strings.LastIndex(mark, ":"); strings.Count(mark[k+1:], ".") == 3 && strings.Contains(s, mark[k+1:]) {
				return true
			}
			return false
		}
		if leak(out.String()) || leak(direct) {
			bad++
			if bad <= 200 {
				t.Errorf("address %q survives: %q -> writer %q, direct %q", mark, line, strings.TrimSuffix(out.String(), "\n"), direct)
			}
		}
	}
	for _, sh := range shapes {
		for _, wrap := range []string{"%s", "[%s]", "[%s]:443"} {
			a := strings.Replace(wrap, "%s", sh.text, 1)
			try(a, sh.mark)
			try("connection from "+a+" closed", sh.mark)
			try("addr="+a+", next", sh.mark)
		}
	}
	for _, v4 := range []string{"1.2.3.4", "10.20.30.40", "100.200.100.200", "255.255.255.255", "9.99.199.0"} {
		for _, a := range []string{v4, v4 + ":1", v4 + ":65535"} {
			try(a, v4)
			try("connection from "+a+" closed", v4)
			try("addr="+a+", next", v4)
		}
	}
	t.Logf("%d lines, %d with a surviving address", n, bad)
	if bad > 0 {
		t.Fatalf("%d of %d lines leak an address", bad, n)
	}
}
