package safelog

// Bounded stand-in for the half of C07 that no contract can state (what the regular expressions match):
// every line built from up to three addresses (six forms: IPv4, IPv4:port, bracketed IPv6 with port, compressed
// IPv6, full IPv6, IPv4-embedded IPv6) separated and surrounded by the delimiters of the property (line boundary,
// space, tab, comma, parentheses, "=", ": ") is scrubbed of every address, both written through a LogScrubber and handed to Scrub directly without a line
// terminator (as common/event does with error texts).
// Bound: <= 3 addresses per line, 6 forms, 7 separators, 3 prefixes, 3 suffixes (about 40 000 lines).

import (
	"bytes"
	"strings"
	"testing"
)

func TestSFBoundedScrubGrammar(t *testing.T) {
	addrs := []string{"1.2.3.4", "203.0.113.77:4433", "[2001:db8::1]:443", "2001:db8::2", "2001:db8:1:2:3:4:5:6", "::ffff:198.51.100.9"}
	// what must not survive: the distinctive part of each address
	marks := []string{"1.2.3.4", "203.0.113.77", "2001:db8::1", "2001:db8::2", "2001:db8:1:2:3:4:5:6", "198.51.100.9"}
	seps := []string{" ", "\t", ", ", " (", ") ", "=", " and "}
	pres := []string{"", "client ", "addr="}
	sufs := []string{"", " done", ")"}
	bad := 0
	check := func(line string, used []int) {
		var out bytes.Buffer
		ls := &LogScrubber{Output: &out}
		ls.Write([]byte(line + "\n"))
		// the same line handed to Scrub directly, without a line terminator (as common/event does with error texts)
		direct := string(Scrub([]byte(line)))
		for _, k := range used {
			if strings.Contains(direct, marks[k]) {
				bad++
				if bad <= 5 {
					t.Errorf("address %q survives a direct Scrub: %q -> %q", marks[k], line, direct)
				}
				return
			}
		}
		for _, k := range used {
			if strings.Contains(out.String(), marks[k]) {
				bad++
				if bad <= 5 {
					t.Errorf("address %q survives: %q -> %q", marks[k], line, strings.TrimSuffix(out.String(), "\n"))
				}
				return
			}
		}
	}
	n := 0
	for _, pre := range pres {
		for _, suf := range sufs {
			for a := range addrs {
				check(pre+addrs[a]+suf, []int{a})
				n++
				for _, s1 := range seps {
					for b := range addrs {
						check(pre+addrs[a]+s1+addrs[b]+suf, []int{a, b})
						n++
						for _, s2 := range seps[:4] {
							for c := range addrs[:3] {
								check(pre+addrs[a]+s1+addrs[b]+s2+addrs[c]+suf, []int{a, b, c})
								n++
							}
						}
					}
				}
			}
		}
	}
	t.Logf("%d lines, %d with a surviving address", n, bad)
	if bad > 0 {
		t.Fatalf("%d of %d lines leak an address", bad, n)
	}
}
