package encapsulation

// Replay driver (R2) for ReadData: injected into the package with `go test -overlay`, never written to /repo.
// Input: env SFREPLAY = JSON {"steps":[{"hex":"c0","eof":false}, ...]}: the sequence of results the scripted
// io.Reader returns (each step: some bytes, optionally together with io.EOF; an empty step is a (0,nil) read).
// Oracle: the format table of the package comment, evaluated on the concatenation of all bytes — written
// independently of ReadData.

import (
	"bytes"
	"encoding/hex"
	"encoding/json"
	"io"
	"os"
	"testing"
)

type sfStep struct {
	Hex string `json:"hex"`
	EOF bool   `json:"eof"`
}
type sfScript struct {
	Steps []sfStep `json:"steps"`
	Calls int      `json:"calls"` // how many ReadData calls to make (default: until error)
}

type sfReader struct {
	steps [][]byte
	eofs  []bool
}

func (s *sfReader) Read(p []byte) (int, error) {
	if len(s.steps) == 0 {
		return 0, io.EOF
	}
	b := s.steps[0]
	n := copy(p, b)
	if n < len(b) {
		s.steps[0] = b[n:]
		return n, nil
	}
	eof := s.eofs[0]
	s.steps, s.eofs = s.steps[1:], s.eofs[1:]
	if eof {
		return n, io.EOF
	}
	return n, nil
}

// oracle: decode the next data chunk of stream d starting at q.
func sfOracle(d []byte, q int) (data []byte, next int, err error) {
	for {
		if q == len(d) {
			return nil, q, io.EOF
		}
		b0 := d[q]
		k, v := 1, int(b0&0x3f)
		if b0&0x40 != 0 {
			if q+1 == len(d) {
				return nil, q, io.ErrUnexpectedEOF
			}
			b1 := d[q+1]
			k, v = 2, v<<7|int(b1&0x7f)
			if b1&0x80 != 0 {
				if q+2 == len(d) {
					return nil, q, io.ErrUnexpectedEOF
				}
				b2 := d[q+2]
				if b2&0x80 != 0 {
					return nil, q, ErrTooLong
				}
				k, v = 3, v<<7|int(b2&0x7f)
			}
		}
		if q+k+v > len(d) {
			return nil, q, io.ErrUnexpectedEOF
		}
		if b0&0x80 != 0 {
			return d[q+k : q+k+v], q + k + v, nil
		}
		q += k + v
	}
}

// built-in scripts (used when SFREPLAY is not set: the bounded stand-in of the thorough tier and the witness of the
// pinned-tree defect): a (0,nil) read between prefix bytes, the last byte of a chunk together with io.EOF, a chunk
// split byte by byte, padding between chunks, end of stream inside a prefix and inside a body.
var sfBuiltin = []string{
	`{"steps":[{"hex":"81"},{"hex":""},{"hex":"01"},{"hex":"aa"}]}`,
	`{"steps":[{"hex":"c1"},{"hex":""},{"hex":""},{"hex":"00"},{"hex":"` + "ab" + `","eof":true}]}`,
	`{"steps":[{"hex":"83"},{"hex":"01"},{"hex":"02"},{"hex":"03","eof":true}]}`,
	`{"steps":[{"hex":"03000000"},{"hex":"82"},{"hex":"0102"},{"hex":"01"},{"hex":"00"},{"hex":"81ff","eof":true}]}`,
	`{"steps":[{"hex":"c0"},{"hex":"","eof":true}]}`,
	`{"steps":[{"hex":"85010203","eof":true}]}`,
	`{"steps":[{"hex":"c0"},{"hex":"80"},{"hex":"80"}]}`,
	`{"steps":[]}`,
	`{"steps":[{"hex":"80","eof":true}]}`,
	`{"steps":[{"hex":"81"},{"hex":"aa","eof":true}]}`,
	`{"steps":[{"hex":""},{"hex":"c0","eof":true}]}`,
	`{"steps":[{"hex":"00"},{"hex":"80","eof":true}]}`,
	`{"steps":[{"hex":"c0"},{"hex":"00","eof":true}]}`,
}

func TestSFReplayReadData(t *testing.T) {
	scripts := sfBuiltin
	if env := os.Getenv("SFREPLAY"); env != "" {
		scripts = []string{env}
	}
	for _, js := range scripts {
		var sc sfScript
		if err := json.Unmarshal([]byte(js), &sc); err != nil {
			t.Fatalf("bad script %s: %v", js, err)
		}
		sfRunScript(t, sc)
	}
}

func sfRunScript(t *testing.T, sc sfScript) {
	r := &sfReader{}
	var all []byte
	for _, s := range sc.Steps {
		b, err := hex.DecodeString(s.Hex)
		if err != nil {
			t.Fatal(err)
		}
		r.steps = append(r.steps, b)
		r.eofs = append(r.eofs, s.EOF)
		all = append(all, b...)
	}
	q := 0
	for i := 0; sc.Calls == 0 || i < sc.Calls; i++ {
		want, next, werr := sfOracle(all, q)
		got, gerr := ReadData(r)
		if gerr != werr || (werr == nil && !bytes.Equal(got, want)) {
			t.Fatalf("REPRODUCED: call %d: ReadData = (%x, %v), the format table says (%x, %v)", i+1, got, gerr, want, werr)
		}
		if werr != nil {
			break
		}
		q = next
	}
	t.Logf("not reproduced: ReadData agreed with the format table")
}
