package main

// Replay driver (run under `go test -race`) for broker.main/go.capture.err: the SIGHUP goroutine of main assigns main's
// own `err` variable (`if err = ctx.metrics.LoadGeoipDatabases(...)`), which main itself assigns after it has started
// that goroutine (os.MkdirAll of the ACME cache directory, the ListenAndServe* results). Schedule: the real main() with
// --acme-hostnames (so that main writes err after the go statement) and a SIGHUP that arrives after the goroutine has
// been started and before main reaches the MkdirAll: that window is widened by a sleep inserted by overlay in front of
// the TLS set-up (timing only; SFSED in replay_drivers.json). The goroutine's write and main's are then unordered.
// The test itself asserts nothing: the race detector fails it.

import (
	"io/ioutil"
	"os"
	"path/filepath"
	"syscall"
	"testing"
	"time"
)

func TestSFReplayMainSighupRace(t *testing.T) {
	dir, err := ioutil.TempDir("", "sfmain")
	if err != nil {
		t.Fatal(err)
	}
	defer os.RemoveAll(dir)
	g4 := filepath.Join(dir, "geoip")
	g6 := filepath.Join(dir, "geoip6")
	ioutil.WriteFile(g4, []byte("16777216,16777471,AU\n"), 0644)
	ioutil.WriteFile(g6, []byte("2001:200::,2001:200:ffff:ffff:ffff:ffff:ffff:ffff,JP\n"), 0644)
	os.Args = []string{"broker", "-addr", "127.0.0.1:0", "-acme-hostnames", "broker.invalid", "-acme-cert-cache", filepath.Join(dir, "cache"),
		"-geoipdb", g4, "-geoip6db", g6, "-metrics-log", filepath.Join(dir, "metrics.log")}
	go main()
	// main has started its SIGHUP goroutine once the metrics log exists and the initial geoip load is done; it then
	// sleeps (overlay) before the TLS set-up
	for i := 0; i < 100; i++ {
		if _, err := os.Stat(filepath.Join(dir, "metrics.log")); err == nil {
			break
		}
		time.Sleep(20 * time.Millisecond)
	}
	time.Sleep(500 * time.Millisecond)
	syscall.Kill(os.Getpid(), syscall.SIGHUP)
	// main wakes up, creates the cache directory (its write of err) and starts listening
	for i := 0; i < 200; i++ {
		if _, err := os.Stat(filepath.Join(dir, "cache")); err == nil {
			break
		}
		time.Sleep(20 * time.Millisecond)
	}
	time.Sleep(300 * time.Millisecond)
}
