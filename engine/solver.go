package main

// Solver portfolio: z3 4.8.12, z3 5.1.0 (z3-new), cvc5 1.0.3.
// A query is an SMT-LIB 2 script without (check-sat); we append check-sat and,
// when a model is wanted, get-value for the listed terms.

import (
	"bytes"
	"context"
	"fmt"
	"os"
	"os/exec"
	"path/filepath"
	"strings"
	"sync"
	"time"
)

type SolveResult struct {
	Status string // "unsat", "sat", "unknown", "timeout", "error"
	Solver string
	Ms     int64
	Model  map[string]string // term -> value text (only for sat, when asked)
	Raw    string
	// Confirm: second solver that agreed (thorough tier)
	Confirm string
	// Candidate: model of the relaxed query (quantified assumptions dropped) when the full query is undecided
	Candidate map[string]string
}

type solverSpec struct {
	name string
	bin  string
	args func(timeoutMs int) []string
	prep func(q string) string
}

var solverSpecs = []solverSpec{
	{name: "z3-5.1.0", bin: "z3-new", args: func(t int) []string { return []string{"-in", "-smt2", fmt.Sprintf("-t:%d", t)} }, prep: func(q string) string { return q }},
	{name: "cvc5-1.0.3", bin: "cvc5", args: func(t int) []string {
		return []string{"--lang=smt2", "--strings-exp", "--fp-exp", fmt.Sprintf("--tlimit=%d", t), "--produce-models", "--arrays-exp"}
	}, prep: func(q string) string { return "(set-logic ALL)\n" + q }},
	{name: "z3-4.8.12", bin: "z3", args: func(t int) []string { return []string{"-in", "-smt2", fmt.Sprintf("-t:%d", t)} }, prep: func(q string) string { return q }},
	// E-matching only, with a more generous instantiation threshold: decides many quantified goals on which the
	// default configuration wanders (an unsat answer is an unsat answer whatever the heuristics)
	{name: "z3-5.1.0/ematch50", bin: "z3-new", args: func(t int) []string {
		return []string{"-in", "-smt2", fmt.Sprintf("-t:%d", t), "smt.mbqi=false", "smt.qi.eager_threshold=50"}
	}, prep: func(q string) string { return q }},
	{name: "z3-5.1.0/ematch500", bin: "z3-new", args: func(t int) []string {
		return []string{"-in", "-smt2", fmt.Sprintf("-t:%d", t), "smt.mbqi=false", "smt.qi.eager_threshold=500"}
	}, prep: func(q string) string { return q }},
}

func findSolver(name string) *solverSpec {
	for i := range solverSpecs {
		if solverSpecs[i].name == name || solverSpecs[i].bin == name {
			return &solverSpecs[i]
		}
	}
	return nil
}

func runOne(ctx context.Context, sp *solverSpec, query string, getValues []string, timeoutMs int) SolveResult {
	var sb strings.Builder
	sb.WriteString(sp.prep(query))
	sb.WriteString("\n(check-sat)\n")
	if len(getValues) > 0 {
		// one get-value per term so that an error on one does not lose the rest
		for _, v := range getValues {
			sb.WriteString("(get-value (" + v + "))\n")
		}
	}
	start := time.Now()
	cctx, cancel := context.WithTimeout(ctx, time.Duration(timeoutMs+1500)*time.Millisecond)
	defer cancel()
	cmd := exec.CommandContext(cctx, sp.bin, sp.args(timeoutMs)...)
	cmd.Stdin = strings.NewReader(sb.String())
	var out bytes.Buffer
	cmd.Stdout = &out
	cmd.Stderr = &out
	_ = cmd.Run()
	ms := time.Since(start).Milliseconds()
	res := SolveResult{Solver: sp.name, Ms: ms, Raw: out.String()}
	first := ""
	rest := ""
	txt := out.String()
	// skip warnings preceding the answer
	lines := strings.Split(txt, "\n")
	for i, l := range lines {
		l = strings.TrimSpace(l)
		if strings.HasPrefix(l, "(error") {
			// a malformed query must never be read as an answer
			res.Status = "error"
			return res
		}
		if l == "sat" || l == "unsat" || l == "unknown" || l == "timeout" {
			first = l
			rest = strings.Join(lines[i+1:], "\n")
			break
		}
	}
	switch first {
	case "unsat":
		res.Status = "unsat"
	case "sat":
		res.Status = "sat"
		res.Model = parseGetValues(rest, getValues)
		if strings.Contains(sp.name, "/ematch") {
			// (with MBQI off z3 answers unknown rather than sat on quantified problems; be safe anyway)
			res.Status = "unknown"
		}
	case "unknown":
		res.Status = "unknown"
	case "timeout":
		res.Status = "timeout"
	default:
		if cctx.Err() != nil {
			res.Status = "timeout"
		} else if strings.Contains(txt, "timeout") || strings.Contains(txt, "interrupted by timeout") {
			res.Status = "timeout"
		} else {
			res.Status = "error"
		}
	}
	return res
}

// parseGetValues parses a sequence of "((term value))" answers, in order.
func parseGetValues(s string, terms []string) map[string]string {
	m := map[string]string{}
	idx := 0
	i := 0
	for i < len(s) && idx < len(terms) {
		// find next top-level s-expression
		for i < len(s) && s[i] != '(' {
			i++
		}
		if i >= len(s) {
			break
		}
		depth := 0
		j := i
		for j < len(s) {
			if s[j] == '(' {
				depth++
			} else if s[j] == ')' {
				depth--
				if depth == 0 {
					j++
					break
				}
			} else if s[j] == '"' {
				j++
				for j < len(s) && s[j] != '"' {
					j++
				}
			}
			j++
		}
		if j > len(s) {
			j = len(s)
		}
		expr := strings.TrimSpace(s[i:j])
		i = j
		if strings.HasPrefix(expr, "(error") {
			idx++
			continue
		}
		// expr = ((term value))
		inner := strings.TrimSpace(expr)
		if len(inner) >= 4 {
			inner = strings.TrimSpace(inner[1 : len(inner)-1]) // (term value)
			if len(inner) >= 2 {
				inner = strings.TrimSpace(inner[1 : len(inner)-1]) // term value
				t := terms[idx]
				if strings.HasPrefix(inner, t) {
					m[t] = strings.TrimSpace(inner[len(t):])
				} else {
					// fall back: split at the end of first s-expr
					m[t] = inner
				}
			}
		}
		idx++
	}
	return m
}

type SolveOpts struct {
	TimeoutMs int
	Confirm   bool     // thorough: unsat must be confirmed by a second solver where one answers
	GetValues []string // terms to evaluate on sat
	Prefer    string   // solver tried first, alone, with a short timeout
}

// Solve runs the staged portfolio: preferred solver alone for a short time,
// then all solvers in parallel; first definite answer wins.
func Solve(query string, o SolveOpts) SolveResult {
	if o.TimeoutMs == 0 {
		o.TimeoutMs = 10000
	}
	pref := findSolver("z3-new")
	if o.Prefer != "" {
		if sp := findSolver(o.Prefer); sp != nil {
			pref = sp
		}
	}
	ctx := context.Background()
	short := 1500
	if short > o.TimeoutMs {
		short = o.TimeoutMs
	}
	r := runOne(ctx, pref, query, o.GetValues, short)
	total := r.Ms
	if r.Status != "unsat" && r.Status != "sat" {
		// portfolio
		cctx, cancel := context.WithCancel(ctx)
		ch := make(chan SolveResult, len(solverSpecs))
		var wg sync.WaitGroup
		for i := range solverSpecs {
			sp := &solverSpecs[i]
			wg.Add(1)
			go func() {
				defer wg.Done()
				ch <- runOne(cctx, sp, query, o.GetValues, o.TimeoutMs)
			}()
		}
		go func() { wg.Wait(); close(ch) }()
		var best *SolveResult
		var all []string
		for rr := range ch {
			rr := rr
			all = append(all, rr.Solver+":"+rr.Status)
			if rr.Status == "unsat" || rr.Status == "sat" {
				best = &rr
				break
			}
			if best == nil {
				best = &rr
			}
		}
		cancel()
		if best != nil {
			r = *best
			if r.Status != "unsat" && r.Status != "sat" {
				r.Raw = strings.Join(all, " ") + "\n" + r.Raw
			}
		}
		r.Ms += total
	}
	if o.Confirm && r.Status == "unsat" {
		for i := range solverSpecs {
			sp := &solverSpecs[i]
			if sp.name == r.Solver {
				continue
			}
			c := runOne(ctx, sp, query, nil, o.TimeoutMs)
			if c.Status == "unsat" {
				r.Confirm = sp.name
				break
			}
			if c.Status == "sat" {
				// disagreement: treat as undecided
				r.Status = "unknown"
				r.Raw = "solver disagreement: " + r.Solver + " unsat, " + sp.name + " sat"
				break
			}
		}
	}
	return r
}

// dumpQuery writes a query for debugging.
func dumpQuery(dir, name, q string) string {
	_ = os.MkdirAll(dir, 0o755)
	fn := filepath.Join(dir, sanitizeFile(name)+".smt2")
	_ = os.WriteFile(fn, []byte(q+"\n(check-sat)\n"), 0o644)
	return fn
}

func sanitizeFile(s string) string {
	var b strings.Builder
	for _, r := range s {
		if (r >= 'a' && r <= 'z') || (r >= 'A' && r <= 'Z') || (r >= '0' && r <= '9') || r == '.' || r == '-' || r == '_' {
			b.WriteRune(r)
		} else {
			b.WriteByte('_')
		}
	}
	return b.String()
}
