package main

// Guarded-by obligations (C20): `//@ guarded T.f by lock` declares that field f of T is protected by the mutex field
// `lock` of the same object. Every load or store of T.f anywhere in the repository (closed-world scan of the SSA) must
// happen with that lock held. A function that touches guarded fields of an object it receives as a parameter and
// never locks that object's mutex itself is a *lock-free accessor*: it is verified under the assumption that the lock
// is held on entry, and every call site of it in the repository must hold the lock (obligation guard.call.*).
// Objects allocated by the activation itself (constructors) are exempt while under construction.

import (
	"go/token"
	"go/types"
	"sort"
	"strings"

	"golang.org/x/tools/go/ssa"
)

type guardDecl struct {
	T     types.Type
	Field string
	Lock  string
	Decl  *GuardedDecl
}

func (e *Engine) guardDecls() []guardDecl {
	var out []guardDecl
	for _, g := range e.guarded {
		t := e.lookupType(g.Pkg, g.Type)
		if t == nil {
			continue
		}
		out = append(out, guardDecl{T: t, Field: g.Field, Lock: g.Lock, Decl: g})
	}
	return out
}

// accessorParams: for fn, the parameters (by index) through which guarded fields are accessed without fn locking the
// corresponding mutex itself; value: lock field name.
func (e *Engine) accessorParams(fn *ssa.Function, gds []guardDecl) map[int]string {
	out := map[int]string{}
	if len(fn.Blocks) == 0 {
		return out
	}
	paramIdx := func(v ssa.Value) int {
		// trace the base pointer back to a parameter (directly or through its local cell)
		for depth := 0; depth < 4; depth++ {
			switch x := v.(type) {
			case *ssa.Parameter:
				for i, p := range fn.Params {
					if p == x {
						return i
					}
				}
				return -1
			case *ssa.UnOp:
				if a, ok := x.X.(*ssa.Alloc); ok && a.Referrers() != nil {
					var src ssa.Value
					n := 0
					for _, r := range *a.Referrers() {
						if st, ok := r.(*ssa.Store); ok && st.Addr == a {
							src = st.Val
							n++
						}
					}
					if n == 1 {
						v = src
						continue
					}
				}
				return -1
			default:
				return -1
			}
		}
		return -1
	}
	locked := map[int]bool{} // params whose mutex fn locks itself
	touched := map[int]string{}
	foreignTouched := map[string]bool{} // "LT.lock" of foreign-guarded fields fn touches
	foreignLocked := map[string]bool{}  // foreign locks whose address fn takes (it locks them itself)
	for _, b := range fn.Blocks {
		for _, ins := range b.Instrs {
			switch x := ins.(type) {
			case *ssa.FieldAddr:
				ot := x.X.Type().Underlying().(*types.Pointer).Elem()
				st, ok := ot.Underlying().(*types.Struct)
				if !ok {
					continue
				}
				fname := st.Field(x.Field).Name()
				for _, gd := range gds {
					if lt, lf := e.foreignLock(gd.Decl); lt != nil {
						if types.Identical(lt, ot) && fname == lf {
							foreignLocked[gd.Decl.Pkg+"|"+gd.Lock] = true
						}
						if types.Identical(gd.T, ot) && fname == gd.Field {
							foreignTouched[gd.Decl.Pkg+"|"+gd.Lock] = true
						}
						continue
					}
					if !types.Identical(gd.T, ot) {
						continue
					}
					pi := paramIdx(x.X)
					if pi < 0 {
						continue
					}
					if fname == gd.Field && gd.Decl.Mode == "lock" {
						touched[pi] = gd.Lock
					}
					if fname == gd.Lock {
						// the address of the mutex is taken: fn locks it itself (Lock/RLock/defer Unlock ...)
						locked[pi] = true
					}
				}
			}
		}
	}
	for pi, l := range touched {
		if !locked[pi] {
			out[pi] = l
		}
	}
	var fl []string
	for l := range foreignTouched {
		if !foreignLocked[l] {
			fl = append(fl, l)
		}
	}
	sort.Strings(fl)
	for i, l := range fl {
		// negative pseudo-indices: the lock belongs to another object than any parameter
		out[-1-i] = l
	}
	return out
}

// foreignLock: `guarded T.f by LT.lock` — the field is protected by the mutex of an object of another type (the
// process has one such object, or every such object's lock protects all T). The obligation is that *some* LT.lock is
// held by the accessing activation.
func (e *Engine) foreignLock(g *GuardedDecl) (types.Type, string) {
	dot := strings.LastIndex(g.Lock, ".")
	if g.Mode != "lock" || g.Type == "global" || dot < 0 {
		return nil, ""
	}
	t := e.lookupType(g.Pkg, g.Lock[:dot])
	if t == nil {
		return nil, ""
	}
	return t, g.Lock[dot+1:]
}

// guardFunctions: the functions that must be verified for the guarded-by property.
func (e *Engine) guardFunctions() ([]*ssa.Function, map[*ssa.Function]map[int]string) {
	gds := e.guardDecls()
	acc := map[*ssa.Function]map[int]string{}
	need := map[*ssa.Function]bool{}
	var fns []*ssa.Function
	for fn := range e.allFuncs {
		if e.inRepo(fn) && len(fn.Blocks) > 0 {
			fns = append(fns, fn)
		}
	}
	sort.Slice(fns, func(i, j int) bool { return fns[i].String() < fns[j].String() })
	for _, fn := range fns {
		touches := false
		for _, b := range fn.Blocks {
			for _, ins := range b.Instrs {
				for _, op := range ins.Operands(nil) {
					if op == nil || *op == nil {
						continue
					}
					if gl, ok := (*op).(*ssa.Global); ok && gl.Pkg != nil {
						for _, g := range e.guarded {
							if g.Type == "global" && g.Field == gl.Name() && g.Pkg == gl.Pkg.Pkg.Path() {
								touches = true
							}
						}
					}
				}
				var whole types.Type
				switch x := ins.(type) {
				case *ssa.UnOp:
					if pt, ok := x.X.Type().Underlying().(*types.Pointer); ok && x.Op == token.MUL {
						whole = pt.Elem()
					}
				case *ssa.Store:
					if pt, ok := x.Addr.Type().Underlying().(*types.Pointer); ok {
						whole = pt.Elem()
					}
				}
				if whole != nil {
					for _, gd := range gds {
						if types.Identical(gd.T, whole) {
							touches = true
						}
					}
				}
				if fa, ok := ins.(*ssa.FieldAddr); ok {
					ot := fa.X.Type().Underlying().(*types.Pointer).Elem()
					st, ok := ot.Underlying().(*types.Struct)
					if !ok {
						continue
					}
					for _, gd := range gds {
						if types.Identical(gd.T, ot) && st.Field(fa.Field).Name() == gd.Field {
							touches = true
						}
					}
				}
			}
		}
		if touches {
			need[fn] = true
			if ap := e.accessorParams(fn, gds); len(ap) > 0 {
				acc[fn] = ap
			}
		}
	}
	// a function that calls a lock-free accessor of foreign-guarded fields and does not take that lock itself is such an
	// accessor too (its own callers hold the lock): closure under static calls
	for changed := true; changed; {
		changed = false
		for _, fn := range fns {
			for _, b := range fn.Blocks {
				for _, ins := range b.Instrs {
					call, ok := ins.(*ssa.Call)
					if !ok {
						continue
					}
					callee := call.Call.StaticCallee()
					if callee == nil || callee == fn {
						continue
					}
					for pi, l := range acc[callee] {
						if pi >= 0 {
							continue
						}
						lt, lf, _ := e.resolveForeignLock(l)
						if lt == nil || e.takesLock(fn, lt, lf) {
							continue
						}
						have := false
						for pj, l2 := range acc[fn] {
							if pj < 0 && l2 == l {
								have = true
							}
						}
						if !have {
							if acc[fn] == nil {
								acc[fn] = map[int]string{}
							}
							acc[fn][-1-len(acc[fn])-100] = l
							need[fn] = true
							changed = true
						}
					}
				}
			}
		}
	}
	// An accessor whose callers cannot all be seen is not trusted to be entered with the lock held: its guarded accesses
	// are then checked unconditionally.
	esc := e.escapingFuncs()
	e.guardIfaceSites = map[*ssa.MakeInterface][]string{}
	// a synthetic method wrapper around an accessor of foreign-guarded fields is such an accessor itself
	for fn, ap := range acc {
		for _, w := range e.escWrapper[fn] {
			for pi, l := range ap {
				if pi < 0 {
					if acc[w] == nil {
						acc[w] = map[int]string{}
					}
					acc[w][pi] = l
				}
			}
		}
	}
	for fn := range acc {
		if sites, ok := e.ifaceOnlyEscape(fn, esc); ok {
			// the only way fn escapes is as a method of a value handed, as an interface, directly to library calls
			// (container/heap): the lock is then demanded at those calls
			foreignOnly := true
			var locks []string
			for pi, l := range acc[fn] {
				if pi >= 0 {
					foreignOnly = false
				}
				locks = append(locks, l)
			}
			if foreignOnly {
				sort.Strings(locks)
				for _, mi := range sites {
					for _, l := range locks {
						dup := false
						for _, have := range e.guardIfaceSites[mi] {
							dup = dup || have == l
						}
						if !dup {
							e.guardIfaceSites[mi] = append(e.guardIfaceSites[mi], l)
						}
					}
					need[mi.Parent()] = true
				}
				e.guardAssume = append(e.guardAssume, "library functions handed a value whose method "+relName(fn)+" touches guarded fields call that method only before they return (container/heap)")
				continue
			}
		}
		if esc[fn] != "" {
			e.guardNotes = append(e.guardNotes, relName(fn)+" touches guarded fields without locking and "+esc[fn]+": no lock is assumed on entry")
			delete(acc, fn)
		} else if fn.Object() != nil && fn.Object().Exported() && fn.Pkg != nil && fn.Pkg.Pkg.Name() != "main" {
			e.guardAssume = append(e.guardAssume, "exported lock-free accessor "+shortPkg(fnPkgPath(fn))+"."+relName(fn)+" is called with the lock held by code outside this repository")
		}
	}
	// callers of lock-free accessors
	for _, fn := range fns {
		for _, b := range fn.Blocks {
			for _, ins := range b.Instrs {
				var cc *ssa.CallCommon
				switch x := ins.(type) {
				case *ssa.Call:
					cc = &x.Call
				case *ssa.Defer:
					cc = &x.Call
				case *ssa.Go:
					cc = &x.Call
				}
				if cc == nil {
					continue
				}
				if callee := cc.StaticCallee(); callee != nil && len(acc[callee]) > 0 {
					need[fn] = true
				}
			}
		}
	}
	var out []*ssa.Function
	for _, fn := range fns {
		if need[fn] && !strings.HasSuffix(fn.Name(), "_test") {
			out = append(out, fn)
		}
	}
	return out, acc
}

// VerifyGuards generates the guarded-by obligations of one function (with its contract if it has one, else with a
// synthetic contract: no safety sweep, trivially true loop invariants).
func (e *Engine) VerifyGuards(fn *ssa.Function, acc map[*ssa.Function]map[int]string) *Unit {
	pk := fnPkgPath(fn)
	key := relName(fn)
	con := e.contracts[pk+"::"+key]
	short := shortPkg(pk) + "." + key
	synth := &Contract{Kind: "func", Pkg: pk, Key: key, Loops: map[int]*LoopSpec{}, Flags: map[string]string{"nosafety": "true", "guards-only": "true"}, Model: "int", Props: []string{e.guardPropName()}}
	if con != nil {
		// reuse loop invariants and requires (they may be needed to reach the accesses); drop everything else
		synth.Model = con.Model
		synth.Strings = con.Strings
		synth.Recv = con.Recv
		synth.Params = con.Params
		synth.Results = con.Results
	}
	if con == nil || true {
		// parameters by their real names
		synth.Recv = nil
		synth.Params = nil
		for _, p := range fn.Params {
			synth.Params = append(synth.Params, ParamDecl{Name: p.Name()})
		}
		synth.Results = nil
		for i := 0; i < fn.Signature.Results().Len(); i++ {
			synth.Results = append(synth.Results, ParamDecl{Name: "r" + string(rune('0'+i))})
		}
	}
	u := newUnit(pk + "::guards/" + key)
	fc := e.newFuncCtx(u, fn, synth, pk)
	fc.guardMode = true
	fc.guardAcc = acc
	fc.autoLoopInv = true
	fc.props = []string{e.guardPropName()}
	func() {
		defer func() {
			if r := recover(); r != nil {
				if ue, ok := r.(unsupportedErr); ok {
					u.Unsupported = append(u.Unsupported, ue.msg)
					return
				}
				panic(r)
			}
		}()
		fc.verifyBody(short)
	}()
	if len(u.Unsupported) > 0 {
		u.Obls = append(u.Obls, &Obligation{Name: short + "/unsupported", Kind: "unsupported", Func: short, Goal: "false", PC: "true", Unit: u, Props: []string{e.guardPropName()}, Structural: true, StructOK: false, Note: strings.Join(u.Unsupported, "; "), Desc: "function uses a construct outside the verified subset: its guarded accesses are not decided"})
	}
	// keep only guard obligations (and failures to analyse)
	var kept []*Obligation
	for _, o := range u.Obls {
		if strings.HasPrefix(o.Kind, "guard.") || o.Kind == "unsupported" {
			kept = append(kept, o)
		}
	}
	u.Obls = kept
	return u
}

// escapingFuncs: functions that can be entered from a call site the closed-world scan cannot attribute: used as a
// value (function value, method value, go/defer of a bound method) or reachable by dynamic dispatch because their
// receiver type is converted to an interface that declares the method.
func (e *Engine) escapingFuncs() map[*ssa.Function]string {
	out := map[*ssa.Function]string{}
	e.escIface = map[*ssa.Function][]*ssa.MakeInterface{}
	e.escWrapper = map[*ssa.Function][]*ssa.Function{}
	reflNames := map[string]bool{"String": true, "Error": true, "Format": true, "GoString": true, "MarshalJSON": true, "MarshalText": true, "UnmarshalJSON": true, "UnmarshalText": true, "Write": true, "Read": true, "Close": true}
	for fn := range e.allFuncs {
		if len(fn.Blocks) == 0 {
			continue
		}
		synthetic := fn.Synthetic != "" && fn.Name() != "init"
		for _, b := range fn.Blocks {
			for _, ins := range b.Instrs {
				var callee ssa.Value
				switch x := ins.(type) {
				case *ssa.Call:
					callee = x.Call.Value
				case *ssa.Defer:
					callee = x.Call.Value
				case *ssa.Go:
					callee = x.Call.Value
				}
				if synthetic {
					if cf, ok := callee.(*ssa.Function); ok {
						if strings.HasPrefix(fn.Synthetic, "wrapper") {
							e.escWrapper[cf] = append(e.escWrapper[cf], fn)
							if out[cf] == "" {
								out[cf] = "\x00wrapper"
							}
						} else {
							out[cf] = "is reachable through the synthetic " + fn.Synthetic
						}
					}
				}
				for _, op := range ins.Operands(nil) {
					if op == nil || *op == nil {
						continue
					}
					if f, ok := (*op).(*ssa.Function); ok && *op != callee {
						out[f] = "is used as a function value in " + relName(fn)
					}
				}
				if mi, ok := ins.(*ssa.MakeInterface); ok {
					it, _ := mi.Type().Underlying().(*types.Interface)
					ms := e.prog.MethodSets.MethodSet(mi.X.Type())
					for i := 0; i < ms.Len(); i++ {
						sel := ms.At(i)
						name := sel.Obj().Name()
						dyn := false
						if it != nil && it.NumMethods() > 0 {
							for j := 0; j < it.NumMethods(); j++ {
								if it.Method(j).Name() == name {
									dyn = true
								}
							}
						} else {
							dyn = reflNames[name]
						}
						if dyn {
							if mf := e.prog.MethodValue(sel); mf != nil {
								e.escIface[mf] = append(e.escIface[mf], mi)
								if out[mf] != "" && !strings.HasPrefix(out[mf], "\x00") {
									continue
								}
								out[mf] = "\x00is reachable by dynamic dispatch (its receiver is converted to " + types.TypeString(mi.Type(), nil) + " in " + relName(fn) + ")"
							}
						}
					}
				}
			}
		}
	}
	// internal markers: "\x00..." = escapes only through interface conversions / wrappers (refined by ifaceOnlyEscape)
	e.escSoft = map[*ssa.Function]bool{}
	for f, r := range out {
		if strings.HasPrefix(r, "\x00") {
			e.escSoft[f] = true
			if r == "\x00wrapper" {
				out[f] = "is reachable through a synthetic method wrapper"
			} else {
				out[f] = r[1:]
			}
		}
	}
	return out
}

// ifaceOnlyEscape: fn escapes only because its receiver type is converted to an interface (directly or through the
// synthetic pointer-receiver wrapper) and every such conversion feeds nothing but arguments of static calls to
// functions outside the repository. Returns those conversion sites.
func (e *Engine) ifaceOnlyEscape(fn *ssa.Function, esc map[*ssa.Function]string) ([]*ssa.MakeInterface, bool) {
	if esc[fn] == "" || !e.escSoft[fn] {
		return nil, false
	}
	sites := append([]*ssa.MakeInterface(nil), e.escIface[fn]...)
	for _, w := range e.escWrapper[fn] {
		if esc[w] != "" && !e.escSoft[w] {
			return nil, false
		}
		sites = append(sites, e.escIface[w]...)
	}
	if len(sites) == 0 {
		return nil, false
	}
	for _, mi := range sites {
		if mi.Parent() == nil || !e.inRepo(mi.Parent()) || mi.Referrers() == nil {
			return nil, false
		}
		for _, r := range *mi.Referrers() {
			switch x := r.(type) {
			case *ssa.DebugRef:
			case *ssa.Call:
				callee := x.Call.StaticCallee()
				if callee == nil || e.inRepo(callee) || x.Call.Value == ssa.Value(mi) {
					return nil, false
				}
			default:
				return nil, false
			}
		}
	}
	return sites, true
}

// foreignLockIsNil: the guard names a lock field of the same struct (the read/write-mode refinement applies to those).
func (e *Engine) foreignLockIsNil(g *GuardedDecl) bool {
	lt, _ := e.foreignLock(g)
	return lt == nil
}

// resolveForeignLock: "declaring package|LT.lock" (as recorded for lock-free accessors of foreign-guarded fields).
func (e *Engine) resolveForeignLock(s string) (types.Type, string, string) {
	pkg := ""
	if i := strings.Index(s, "|"); i >= 0 {
		pkg, s = s[:i], s[i+1:]
	}
	dot := strings.LastIndex(s, ".")
	if dot < 0 {
		return nil, "", s
	}
	return e.lookupType(pkg, s[:dot]), s[dot+1:], s
}

func (e *Engine) guardPropName() string {
	if e.guardProp == "" {
		return "C20"
	}
	return e.guardProp
}

// takesLock: fn takes the address of field lf of an object of type lt (it locks it itself).
func (e *Engine) takesLock(fn *ssa.Function, lt types.Type, lf string) bool {
	for _, b := range fn.Blocks {
		for _, ins := range b.Instrs {
			fa, ok := ins.(*ssa.FieldAddr)
			if !ok {
				continue
			}
			ot := fa.X.Type().Underlying().(*types.Pointer).Elem()
			st, ok := ot.Underlying().(*types.Struct)
			if ok && types.Identical(ot, lt) && st.Field(fa.Field).Name() == lf {
				return true
			}
		}
	}
	return false
}
