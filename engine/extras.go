package main

import (
	"encoding/json"
	"fmt"
	"golang.org/x/tools/go/ssa"
	"os"
	"os/exec"
	"path/filepath"
	"regexp"
	"sort"
	"strings"
)

// propertyExtras: obligations that are not attached to one function contract (filled in per property).
func (e *Engine) propertyExtras(prop, only string) ([]*Obligation, []*Unit) {
	if prop != "C20" {
		// guards tagged with another property as well (`guarded ... [C19,C20]`): that property's result depends on
		// the serialisation, so the same closed-world scan runs for it, restricted to those declarations
		var tagged []*GuardedDecl
		for _, g := range e.guarded {
			for _, p := range g.Props {
				if p == prop {
					tagged = append(tagged, g)
				}
			}
		}
		if len(tagged) == 0 {
			return nil, nil
		}
		saved := e.guarded
		e.guarded = tagged
		e.guardProp = prop
		defer func() { e.guarded = saved }()
		for _, g := range tagged {
			g.Props = []string{prop}
		}
	}
	fns, acc := e.guardFunctions()
	var obls []*Obligation
	var units []*Unit
	if prop == "C20" {
		// closed-world scan for variables shared with goroutines and reassigned by the spawner
		var all []*ssa.Function
		for fn := range e.allFuncs {
			if e.inRepo(fn) && len(fn.Blocks) > 0 && !strings.HasSuffix(e.fset.Position(fn.Pos()).Filename, "_test.go") {
				all = append(all, fn)
			}
		}
		sort.Slice(all, func(i, j int) bool { return all[i].String() < all[j].String() })
		for _, fn := range all {
			if only != "" && !strings.Contains(fn.String(), only) {
				continue
			}
			obls = append(obls, e.captureObligations(fn, []string{"C20"})...)
		}
	}
	for _, fn := range fns {
		if only != "" && !strings.Contains(fn.String(), only) {
			continue
		}
		u := e.VerifyGuards(fn, acc)
		for _, a := range e.guardAssume {
			u.Assumptions[a] = true
		}
		for _, a := range e.guardNotes {
			u.Assumptions["note: "+a] = true
		}
		units = append(units, u)
		obls = append(obls, u.Obls...)
	}
	return obls, units
}

// ---- replay against the real code ----

type replayDriver struct {
	Properties  []string `json:"properties"`
	Obligations []string `json:"obligations"`
	Pkg         string   `json:"pkg"`
	Driver      string   `json:"driver"`
	Test        string   `json:"test"`
	Race        bool     `json:"race"`
	Sed         string   `json:"sed"`
	Bounded     string   `json:"bounded"`
	Bound       string   `json:"bound"`
}

func loadDrivers() []replayDriver {
	var f struct {
		Drivers []replayDriver `json:"drivers"`
	}
	data, err := os.ReadFile(filepath.Join(verifDir, "replay_drivers.json"))
	if err != nil {
		return nil
	}
	if json.Unmarshal(data, &f) != nil {
		return nil
	}
	return f.Drivers
}

// runDriver runs one witness test against the checked tree by overlay; failed == the test demonstrates the violation.
func runDriver(repo string, d replayDriver) (failed bool, out string, cmd string) {
	args := []string{repo, d.Pkg, filepath.Join(verifDir, d.Driver), d.Test}
	c := exec.Command(filepath.Join(verifDir, "tools", "replay_overlay.sh"), args...)
	c.Env = os.Environ()
	cmd = ""
	if d.Race {
		c.Env = append(c.Env, "SFRACE=1")
		cmd += "SFRACE=1 "
	}
	if d.Sed != "" {
		c.Env = append(c.Env, "SFSED="+d.Sed)
		cmd += "SFSED='" + d.Sed + "' "
	}
	cmd += "/verif/tools/replay_overlay.sh " + strings.Join(args, " ")
	b, err := c.CombinedOutput()
	out = string(b)
	if len(out) > 6000 {
		out = out[len(out)-6000:]
	}
	if strings.Contains(out, "no tests to run") || strings.Contains(out, "[build failed]") || strings.Contains(out, "[setup failed]") {
		// the driver did not run: that is no demonstration
		return false, out, cmd
	}
	return err != nil, out, cmd
}

// tryReplay (R-driver): a hand-written witness exists for this obligation; run it on the checked tree.
func tryReplay(e *Engine, ob *Obligation, extra map[string]interface{}) bool {
	for _, d := range loadDrivers() {
		hit := false
		for _, p := range d.Obligations {
			if strings.HasPrefix(ob.Name, p) {
				hit = true
			}
		}
		if !hit {
			continue
		}
		failed, out, cmd := runDriver(e.repoDir, d)
		extra["replay_driver"] = d.Driver + " " + d.Test
		extra["replay_cmd"] = cmd
		extra["replay_output"] = out
		extra["replay_demonstrates_violation"] = failed
		if failed {
			return true
		}
	}
	// no hand-written witness: try to build one from the solver's counterexample (R1)
	if oblStatus(ob) == "failed" && !ob.Structural {
		return genReplay(e, ob, extra)
	}
	return false
}

// runBounded: the bounded regression stand-ins of a property (see replay_drivers.json).
func runBounded(e *Engine, prop, tier, replayDir string) (lines []string, violations []string) {
	for _, d := range loadDrivers() {
		if d.Bounded == "" || (d.Bounded == "thorough" && tier != "thorough") {
			continue
		}
		in := false
		for _, p := range d.Properties {
			if p == prop {
				in = true
			}
		}
		if !in {
			continue
		}
		failed, out, cmd := runDriver(e.repoDir, d)
		res := "passed"
		if failed {
			res = "FAILED"
			path := filepath.Join(replayDir, prop, "bounded_"+d.Test+".json")
			_ = os.MkdirAll(filepath.Dir(path), 0o755)
			m := map[string]interface{}{"property": prop, "kind": "bounded.replay", "driver": d.Driver, "test": d.Test, "cmd": cmd, "bound": d.Bound, "output": out}
			data, _ := json.MarshalIndent(m, "", " ")
			_ = os.WriteFile(path, data, 0o644)
			violations = append(violations, fmt.Sprintf("VIOLATION property=%s replay=%s bounded-driver=%s/%s (failing input replayed on the real code: %s)", prop, path, d.Driver, d.Test, cmd))
		}
		lines = append(lines, fmt.Sprintf("bounded (not a proof): %s %s on %s — bound: %s — %s", d.Driver, d.Test, d.Pkg, d.Bound, res))
	}
	return
}

// cmdReplay: `sfverify replay <replay file>` re-runs what the replay file records: the witness driver against /repo if
// there is one (exit 1 if it still demonstrates the violation), else the stored SMT query (exit 1 unless unsat).
func cmdReplay(args []string) int {
	if len(args) < 1 {
		fmt.Println("usage: sfverify replay <path to replay .json>")
		return 2
	}
	data, err := os.ReadFile(args[0])
	if err != nil {
		fmt.Println(err)
		return 2
	}
	var m map[string]interface{}
	if err := json.Unmarshal(data, &m); err != nil {
		fmt.Println(err)
		return 2
	}
	fmt.Printf("property=%v obligation=%v\n  %v [%v]\n", m["property"], m["obligation"], m["desc"], m["pos"])
	if cmd, ok := m["replay_cmd"].(string); ok && cmd != "" {
		cmd = regexp.MustCompile(`/var/tmp/sfmut\.[A-Za-z0-9]+`).ReplaceAllString(cmd, "/repo")
		fmt.Println("running witness driver:", cmd)
		c := exec.Command("/bin/bash", "-c", cmd)
		out, err := c.CombinedOutput()
		fmt.Println(string(out))
		if err != nil {
			fmt.Println("REPLAY: the driver fails on /repo: violation demonstrated")
			return 1
		}
		fmt.Println("REPLAY: the driver passes on /repo")
		return 0
	}
	if cmd, ok := m["cmd"].(string); ok && cmd != "" {
		fmt.Println("running bounded driver:", cmd)
		c := exec.Command("/bin/bash", "-c", regexp.MustCompile(`/var/tmp/sfmut\.[A-Za-z0-9]+`).ReplaceAllString(cmd, "/repo"))
		out, err := c.CombinedOutput()
		fmt.Println(string(out))
		if err != nil {
			return 1
		}
		return 0
	}
	if q, ok := m["query"].(string); ok && q != "" {
		qd, err := os.ReadFile(q)
		if err != nil {
			fmt.Println("stored query not found:", err)
			return 2
		}
		r := Solve(strings.TrimSuffix(strings.TrimSpace(string(qd)), "(check-sat)"), SolveOpts{TimeoutMs: 60000})
		fmt.Printf("stored obligation query: %s by %s in %d ms (unsat = discharged)\n", r.Status, r.Solver, r.Ms)
		if r.Status == "unsat" {
			return 0
		}
		return 1
	}
	fmt.Println("nothing to replay in this file (structural obligation): see `note`:", m["note"])
	return 1
}

// cmdSelftest: the must-fail corpus. Every mutant under selftest/mutants (a change that breaks a property while still
// compiling) is applied to a scratch copy of /repo and the property's check must report a violation whose obligation
// name contains the expected substring. Exit 0 iff every mutant is caught (mutants listed in selftest/known_missed.txt
// are reported but do not fail the run).
// selftestFor: the must-fail mutants of one property (thorough tier): how many the check catches. A miss is a
// weakness of the check, not a violation of the property: it is reported in the evidence and on stdout as a NOTE.
func selftestFor(prop string) (lines []string, caught, total int) {
	dir := filepath.Join(verifDir, "selftest", "mutants")
	ents, _ := os.ReadDir(dir)
	for _, en := range ents {
		if !strings.HasSuffix(en.Name(), ".json") {
			continue
		}
		name := strings.TrimSuffix(en.Name(), ".json")
		var meta struct{ Property, Expect string }
		data, _ := os.ReadFile(filepath.Join(dir, en.Name()))
		_ = json.Unmarshal(data, &meta)
		if meta.Property != prop {
			continue
		}
		c := exec.Command(filepath.Join(verifDir, "tools", "mutcheck.sh"), filepath.Join(dir, name+".diff"), prop)
		out, _ := c.CombinedOutput()
		total++
		switch {
		case strings.Contains(string(out), "PATCH-FAILED"):
			lines = append(lines, "mutant "+name+": stale (no longer applies)")
		case strings.Contains(string(out), "\nVIOLATION ") || strings.HasPrefix(string(out), "VIOLATION "):
			caught++
			lines = append(lines, "mutant "+name+": caught")
		default:
			lines = append(lines, "mutant "+name+": MISSED")
		}
	}
	return
}

func cmdSelftest(args []string) int {
	dir := filepath.Join(verifDir, "selftest", "mutants")
	ents, _ := os.ReadDir(dir)
	missedOK := map[string]bool{}
	if data, err := os.ReadFile(filepath.Join(verifDir, "selftest", "known_missed.txt")); err == nil {
		for _, l := range strings.Split(string(data), "\n") {
			if f := strings.Fields(l); len(f) > 0 && !strings.HasPrefix(f[0], "#") {
				missedOK[f[0]] = true
			}
		}
	}
	only := ""
	if len(args) > 0 {
		only = args[0]
	}
	bad := 0
	n := 0
	for _, en := range ents {
		if !strings.HasSuffix(en.Name(), ".json") {
			continue
		}
		name := strings.TrimSuffix(en.Name(), ".json")
		if only != "" && !strings.Contains(name, only) {
			continue
		}
		var meta struct{ Property, Expect string }
		data, _ := os.ReadFile(filepath.Join(dir, en.Name()))
		_ = json.Unmarshal(data, &meta)
		c := exec.Command(filepath.Join(verifDir, "tools", "mutcheck.sh"), filepath.Join(dir, name+".diff"), meta.Property)
		out, _ := c.CombinedOutput()
		n++
		caught, expected := false, false
		for _, l := range strings.Split(string(out), "\n") {
			if strings.HasPrefix(l, "VIOLATION ") {
				caught = true
				if strings.Contains(l, meta.Expect) {
					expected = true
				}
			}
		}
		switch {
		case strings.Contains(string(out), "PATCH-FAILED"):
			fmt.Printf("STALE   %s (%s): the mutant no longer applies\n", name, meta.Property)
			bad++
		case caught && expected:
			fmt.Printf("caught  %s (%s)\n", name, meta.Property)
		case caught:
			fmt.Printf("caught  %s (%s) by another obligation than expected (%q)\n", name, meta.Property, meta.Expect)
		case missedOK[name]:
			fmt.Printf("missed  %s (%s) - listed in selftest/known_missed.txt\n", name, meta.Property)
		default:
			fmt.Printf("MISSED  %s (%s)\n", name, meta.Property)
			bad++
		}
	}
	fmt.Printf("selftest: %d mutants, %d not caught\n", n, bad)
	if bad > 0 {
		return 1
	}
	return 0
}

// cmdSweep: zero-annotation safety sweep (exploration aid, not part of any check): every function of the repository
// that has no contract is executed with an empty contract and trivially true loop invariants; failing index / slice /
// type-assertion / division / make-size / close obligations are listed as CANDIDATES. A candidate means "needs a
// contract or is a defect": nothing here is reported as a violation.
func cmdSweep(args []string) int {
	e, err := LoadEngine("/repo", repoPatterns(), filepath.Join(verifDir, "prelude"))
	if err != nil {
		fmt.Println(err)
		return 2
	}
	filter := ""
	if len(args) > 0 {
		filter = args[0]
	}
	var fns []*ssa.Function
	for fn := range e.allFuncs {
		if !e.inRepo(fn) || len(fn.Blocks) == 0 || fn.Synthetic != "" {
			continue
		}
		if strings.HasSuffix(e.prog.Fset.Position(fn.Pos()).Filename, "_test.go") {
			continue
		}
		if filter != "" && !strings.Contains(fn.String(), filter) {
			continue
		}
		if e.contractFor(fn) != nil {
			continue
		}
		fns = append(fns, fn)
	}
	sort.Slice(fns, func(i, j int) bool { return fns[i].String() < fns[j].String() })
	kinds := map[string]bool{"safety.index": true, "safety.slice": true, "safety.typeassert": true, "safety.div": true, "safety.makesize": true, "safety.close": true, "safety.shift": true, "safety.nilmap": true}
	var obls []*Obligation
	for _, fn := range fns {
		pk := fnPkgPath(fn)
		key := relName(fn)
		synth := &Contract{Kind: "func", Pkg: pk, Key: key, Loops: map[int]*LoopSpec{}, Flags: map[string]string{"safety-close": "true"}, Model: "int", Props: []string{"sweep"}}
		for _, p := range fn.Params {
			synth.Params = append(synth.Params, ParamDecl{Name: p.Name()})
		}
		for i := 0; i < fn.Signature.Results().Len(); i++ {
			synth.Results = append(synth.Results, ParamDecl{Name: "r" + string(rune('0'+i))})
		}
		u := newUnit(pk + "::sweep/" + key)
		fc := e.newFuncCtx(u, fn, synth, pk)
		fc.autoLoopInv = true
		fc.props = []string{"sweep"}
		short := shortPkg(pk) + "." + key
		func() {
			defer func() {
				if r := recover(); r != nil {
					if _, ok := r.(unsupportedErr); ok {
						return
					}
					fmt.Printf("sweep: %s: internal error %v\n", short, r)
				}
			}()
			fc.verifyBody(short)
		}()
		for _, o := range u.Obls {
			if kinds[o.Kind] && !o.Structural {
				obls = append(obls, o)
			}
		}
	}
	runObligations(obls, RunOpts{Tier: "quick", TimeoutMs: 5000, Workers: 8})
	n := 0
	for _, o := range obls {
		if st := oblStatus(o); st != "discharged" {
			n++
			fmt.Printf("CANDIDATE %-10s %s [%s] %s\n", st, o.Name, o.Pos, o.Desc)
		}
	}
	fmt.Printf("sweep: %d functions without contract, %d safety obligations of the selected kinds, %d candidates\n", len(fns), len(obls), n)
	return 0
}
