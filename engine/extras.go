package main

import (
	"fmt"
	"strings"
)

// propertyExtras: obligations that are not attached to one function contract (filled in per property).
func (e *Engine) propertyExtras(prop, only string) ([]*Obligation, []*Unit) {
	if prop != "C20" {
		return nil, nil
	}
	fns, acc := e.guardFunctions()
	var obls []*Obligation
	var units []*Unit
	for _, fn := range fns {
		if only != "" && !strings.Contains(fn.String(), only) {
			continue
		}
		u := e.VerifyGuards(fn, acc)
		for _, a := range e.guardAssume {
			u.Assumptions[a] = true
		}
		for _, a := range e.guardNotes {
			u.Assumptions["note: "+a] = true
		}
		units = append(units, u)
		obls = append(obls, u.Obls...)
	}
	return obls, units
}

func tryReplay(e *Engine, ob *Obligation, extra map[string]interface{}) bool {
	return false
}

func cmdReplay(args []string) int {
	fmt.Println("replay: not implemented yet")
	return 2
}

func cmdSelftest(args []string) int {
	fmt.Println("selftest: not implemented yet")
	return 2
}
