package main

import "fmt"

// propertyExtras: obligations that are not attached to one function contract (filled in per property).
func (e *Engine) propertyExtras(prop, only string) ([]*Obligation, []*Unit) {
	return nil, nil
}

func tryReplay(e *Engine, ob *Obligation, extra map[string]interface{}) bool {
	return false
}

func cmdReplay(args []string) int {
	fmt.Println("replay: not implemented yet")
	return 2
}

func cmdSelftest(args []string) int {
	fmt.Println("selftest: not implemented yet")
	return 2
}
