package main

import (
	"fmt"
	"os"

	"golang.org/x/tools/go/packages"
	"golang.org/x/tools/go/ssa"
	"golang.org/x/tools/go/ssa/ssautil"
)

func main() {
	cfg := &packages.Config{Mode: packages.NeedName | packages.NeedFiles | packages.NeedSyntax | packages.NeedTypes | packages.NeedTypesInfo | packages.NeedDeps | packages.NeedImports, Dir: "/repo", BuildFlags: []string{"-mod=readonly", "-tags=verif"}}
	pkgs, err := packages.Load(cfg, os.Args[2:]...)
	if err != nil {
		panic(err)
	}
	prog, spkgs := ssautil.Packages(pkgs, ssa.NaiveForm|ssa.GlobalDebug)
	_ = prog
	for _, p := range spkgs {
		p.Build()
		for _, m := range p.Members {
			if f, ok := m.(*ssa.Function); ok && (os.Args[1] == "*" || f.Name() == os.Args[1]) {
				f.WriteTo(os.Stdout)
				for _, a := range f.AnonFuncs {
					a.WriteTo(os.Stdout)
				}
			}
		}
		fmt.Println("pkg", p.Pkg.Path())
	}
}
