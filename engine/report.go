package main

import (
	"context"
	"encoding/json"
	"fmt"
	"os"
	"path/filepath"
	"sort"
	"strings"
	"sync"
	"time"
)

type KnownFinding struct {
	Property   string `json:"property"`
	Obligation string `json:"obligation"`
	Status     string `json:"status"` // "open", "fixed", "witness-only"
	What       string `json:"what"`
	Witness    string `json:"witness"`
	Commit     string `json:"commit,omitempty"`
	Replay     string `json:"replay,omitempty"`
}

type KnownFindings struct {
	Findings []KnownFinding `json:"findings"`
	Fixed    []string       `json:"fixed"`
}

func loadKnownFindings(path string) *KnownFindings {
	kf := &KnownFindings{}
	data, err := os.ReadFile(path)
	if err != nil {
		return kf
	}
	_ = json.Unmarshal(data, kf)
	return kf
}

func (kf *KnownFindings) match(prop, obl string) *KnownFinding {
	for i := range kf.Findings {
		f := &kf.Findings[i]
		if f.Status != "open" {
			continue
		}
		if f.Obligation == obl && (f.Property == prop || f.Property == "") {
			return f
		}
	}
	return nil
}

type RunOpts struct {
	Tier      string
	TimeoutMs int
	Confirm   bool
	Workers   int
	DumpDir   string
	Seed      int
}

func runObligations(obls []*Obligation, o RunOpts) {
	if o.Workers <= 0 {
		o.Workers = 6
	}
	var wg sync.WaitGroup
	ch := make(chan *Obligation)
	for w := 0; w < o.Workers; w++ {
		wg.Add(1)
		go func() {
			defer wg.Done()
			for ob := range ch {
				if ob.Structural {
					continue
				}
				q := ob.Unit.Query(ob)
				if len(q) > 4<<20 {
					ob.Result = &SolveResult{Status: "unknown", Raw: "vc-too-large"}
					continue
				}
				so := SolveOpts{TimeoutMs: o.TimeoutMs, Confirm: o.Confirm && !ob.WantSat}
				if !ob.WantSat {
					so.GetValues = ob.ModelTerms
				}
				if o.DumpDir != "" {
					dumpQuery(o.DumpDir, ob.Name, q)
				}
				var r SolveResult
				piecewiseFirst := !ob.WantSat && strings.Contains(ob.Goal, "(forall ") && (strings.HasPrefix(ob.Goal, "(and ") || len(ob.Cases) > 1)
				if piecewiseFirst {
					// quantified conjunctions / joins are discharged piece by piece right away
					r = SolveResult{Status: "unknown", Solver: "piecewise"}
				} else if ob.WantSat && strings.Contains(q, "(forall ") {
					// vacuity/cover query under quantified assumptions: the solvers rarely find a model of the whole
					// query; it is decided on the quantifier-free part below (unsat there is a definite contradiction)
					// ... after a short attempt on the whole query, which catches contradictions among the quantified
					// assumptions that a solver sees at once
					so3 := so
					so3.TimeoutMs = 2500
					r = Solve(q, so3)
					if r.Status != "unsat" && r.Status != "sat" {
						r = SolveResult{Status: "unknown", Solver: "relaxed-first", Ms: r.Ms}
					}
				} else {
					r = Solve(q, so)
				}
				if !ob.WantSat && r.Status != "unsat" && r.Status != "sat" && (strings.HasPrefix(ob.Goal, "(and ") || len(ob.Cases) > 1) {
					// not decided as a whole: discharge it conjunct by conjunct and, where the state is a join of several
					// paths, path by path (the path conditions are exhaustive under the obligation's pc)
					cjs0 := splitConj(ob.Goal)
					var cjs []string
					if len(ob.Cases) > 1 && len(ob.Cases) <= 8 {
						for _, cj := range cjs0 {
							for _, cs := range ob.Cases {
								cjs = append(cjs, tImp(cs, cj))
							}
						}
					} else {
						cjs = cjs0
					}
					if len(cjs) > 1 && len(cjs) <= 64 {
						all := true
						var tot int64 = r.Ms
						var last SolveResult
						for _, cj := range cjs {
							o2 := *ob
							o2.Goal = cj
							rc := Solve(ob.Unit.Query(&o2), so)
							tot += rc.Ms
							last = rc
							if rc.Status != "unsat" {
								all = false
								r = rc
								r.Raw = "conjunct not discharged: " + clipStr(cj, 400) + "\n" + rc.Raw
								break
							}
						}
						if !all && piecewiseFirst {
							// give the undivided query one chance too
							rw := Solve(q, so)
							tot += rw.Ms
							if rw.Status == "unsat" || rw.Status == "sat" {
								r = rw
							}
						}
						if all {
							r = last
							r.Status = "unsat"
							ob.Note = fmt.Sprintf("discharged piecewise (%d conjunct/path cases)", len(cjs))
						}
						r.Ms = tot
					}
				}
				if !ob.WantSat && (r.Status == "unknown" || r.Status == "timeout") && !strings.Contains(ob.Goal, "(forall ") {
					// look for a candidate counterexample without the quantified assumptions
					so2 := so
					so2.TimeoutMs = 5000
					so2.Confirm = false
					r2 := Solve(ob.Unit.RelaxedQuery(ob), so2)
					if r2.Status == "sat" {
						r.Candidate = r2.Model
						r.Raw += "\ncandidate model from the relaxed query (quantified assumptions dropped) by " + r2.Solver
					}
				}
				if ob.WantSat && (r.Status == "unknown" || r.Status == "timeout" || r.Status == "error") {
					// vacuity/cover query with quantified assumptions: decide it on the quantifier-free part
					// (unsat there is a definite contradiction; sat there is accepted and noted)
					r2 := Solve(ob.Unit.RelaxedQuery(ob), SolveOpts{TimeoutMs: o.TimeoutMs})
					if r2.Status == "sat" || r2.Status == "unsat" {
						r2.Ms += r.Ms
						r = r2
						ob.Note = "decided on the quantifier-free part of the assumptions"
					}
				}
				if !ob.WantSat && r.Status == "unsat" && reachKind(ob.Kind) && ob.PC != "true" {
					// vacuity guard: the point must be reachable (else a contradiction among the assumptions makes
					// everything provable there)
					rr := runOne(context.Background(), findSolver("z3-new"), ob.Unit.ReachQuery(ob), nil, 3000)
					r.Ms += rr.Ms
					if rr.Status == "unsat" {
						ob.Vacuous = true
						r.Status = "unknown"
						r.Raw = "VACUOUS: the assumptions on the path to this obligation are contradictory (quantifier-free part already unsat)"
						ob.Note = "vacuous: unreachable under the assumptions"
					}
				}
				ob.Result = &r
			}
		}()
	}
	for _, ob := range obls {
		ch <- ob
	}
	close(ch)
	wg.Wait()
}

func oblStatus(ob *Obligation) string {
	if ob.Structural {
		if ob.StructOK {
			return "discharged"
		}
		return "failed"
	}
	if ob.Result == nil {
		return "undecided"
	}
	if ob.WantSat {
		switch ob.Result.Status {
		case "sat":
			return "discharged"
		case "unsat":
			return "failed" // vacuous
		}
		// a cover query that times out is not a soundness problem; count it as undecided-benign
		return "undecided"
	}
	switch ob.Result.Status {
	case "unsat":
		return "discharged"
	case "sat":
		return "failed"
	}
	return "undecided"
}

type oblRecord struct {
	Name    string `json:"name"`
	Kind    string `json:"kind"`
	Func    string `json:"function"`
	Pos     string `json:"pos,omitempty"`
	Result  string `json:"result"`
	Solver  string `json:"solver,omitempty"`
	Confirm string `json:"confirmed_by,omitempty"`
	Ms      int64  `json:"ms"`
	Desc    string `json:"desc,omitempty"`
	Note    string `json:"note,omitempty"`
}

type checkResult struct {
	Property    string
	Tier        string
	Obls        []*Obligation
	Units       []*Unit
	Funcs       []string
	Violations  []string
	KnownLines  []string
	Wall        float64
	SolverMs    int64
	Assumptions []string
	ContractHashes map[string]string
	Extra       map[string]interface{}
}

func writeEvidence(path string, cr *checkResult, kfObls []map[string]interface{}, seed int) error {
	var recs []oblRecord
	total, discharged, structural, smt, undec := 0, 0, 0, 0, 0
	bySolver := map[string]int{}
	var samples []interface{}
	for _, ob := range cr.Obls {
		st := oblStatus(ob)
		r := oblRecord{Name: ob.Name, Kind: ob.Kind, Func: ob.Func, Pos: ob.Pos, Result: st, Desc: ob.Desc, Note: ob.Note}
		if ob.Result != nil {
			r.Solver = ob.Result.Solver
			r.Ms = ob.Result.Ms
			r.Confirm = ob.Result.Confirm
			if st == "discharged" {
				bySolver[ob.Result.Solver]++
			}
		} else if ob.Structural {
			r.Solver = "structural"
		}
		if ob.known {
			r.Result = "known-finding"
			recs = append(recs, r)
			continue
		}
		total++
		if st == "discharged" {
			discharged++
			if ob.Structural {
				structural++
			} else {
				smt++
			}
		} else if st == "undecided" {
			undec++
		}
		recs = append(recs, r)
	}
	// samples: a few obligations written out
	n := 0
	for _, ob := range cr.Obls {
		if ob.Structural || ob.known || ob.Result == nil {
			continue
		}
		if n >= 4 {
			break
		}
		if ob.Kind == "post" || ob.Kind == "loop" || ob.Kind == "lemma" || strings.HasPrefix(ob.Kind, "inv.") || strings.HasPrefix(ob.Kind, "call.") || n < 2 {
			q := ob.Unit.Query(ob)
			goal := ob.Goal
			if len(goal) > 600 {
				goal = goal[:600] + "…"
			}
			samples = append(samples, map[string]interface{}{"obligation": ob.Name, "kind": ob.Kind, "desc": ob.Desc, "pos": ob.Pos, "goal_smt": goal, "query_bytes": len(q), "result": ob.Result.Status, "solver": ob.Result.Solver, "ms": ob.Result.Ms})
			n++
		}
	}
	if len(samples) == 0 {
		for _, ob := range cr.Obls {
			samples = append(samples, map[string]interface{}{"obligation": ob.Name, "kind": ob.Kind, "desc": ob.Desc, "result": oblStatus(ob)})
			if len(samples) >= 2 {
				break
			}
		}
	}
	trusted := []string{
		"Go front end (go/parser, go/types) and golang.org/x/tools/go/ssa v0.29.0 (translation of the real /repo source to SSA, naive form, rebuilt on every run)",
		"the VC generator /verif/engine (symbolic execution of the loop-cut SSA CFG, component heap, modular calls)",
		"SMT solvers z3 4.8.12, z3 5.1.0, cvc5 1.0.3",
	}
	ev := map[string]interface{}{
		"property_id": cr.Property,
		"tier":        cr.Tier,
		"seed":        seed,
		"level":       "proof",
		"coverage": map[string]interface{}{
			"obligations":  total,
			"discharged":   discharged,
			"checker_cmd":  "/verif/bin/sfverify check " + cr.Property + " --tier " + cr.Tier,
			"trusted_base": trusted,
			"samples":      samples,
			"functions_under_contract": cr.Funcs,
			"discharged_structural":    structural,
			"discharged_smt":           smt,
			"discharged_by_solver":     bySolver,
			"undecided":                undec,
			"solver_ms_total":          cr.SolverMs,
			"obligation_list":          recs,
			"known_finding_obligations": kfObls,
			"contract_hashes":          cr.ContractHashes,
			"bounded":                  []string{},
			"explanation":              "every obligation is an SMT query generated from the SSA of the current /repo working tree and the contract clauses in zz_contracts_verif.go; `discharged` counts obligations answered unsat (or structural checks that passed, or vacuity/cover queries answered sat)",
		},
		"assumptions": cr.Assumptions,
		"wall_s":      cr.Wall,
		"violations":  len(cr.Violations),
	}
	for k, v := range cr.Extra {
		ev["coverage"].(map[string]interface{})[k] = v
	}
	data, err := json.MarshalIndent(ev, "", " ")
	if err != nil {
		return err
	}
	_ = os.MkdirAll(filepath.Dir(path), 0o755)
	return os.WriteFile(path, data, 0o644)
}

func writeReplay(dir string, prop string, ob *Obligation, extra map[string]interface{}) string {
	_ = os.MkdirAll(dir, 0o755)
	fn := filepath.Join(dir, sanitizeFile(ob.Name)+".json")
	m := map[string]interface{}{
		"property":   prop,
		"obligation": ob.Name,
		"kind":       ob.Kind,
		"function":   ob.Func,
		"pos":        ob.Pos,
		"desc":       ob.Desc,
		"status":     oblStatus(ob),
		"note":       ob.Note,
		"written":    time.Now().Format(time.RFC3339),
	}
	if ob.Result != nil {
		m["solver"] = ob.Result.Solver
		m["solver_status"] = ob.Result.Status
		raw := ob.Result.Raw
		if len(raw) > 4000 {
			raw = raw[:4000]
		}
		m["solver_output"] = raw
		if len(ob.Result.Model) > 0 {
			mm := map[string]string{}
			for i, t := range ob.ModelTerms {
				if v, ok := ob.Result.Model[t]; ok && i < len(ob.ModelNames) {
					mm[ob.ModelNames[i]] = v
				}
			}
			m["model"] = mm
		}
	}
	if !ob.Structural {
		qf := filepath.Join(dir, sanitizeFile(ob.Name)+".smt2")
		_ = os.WriteFile(qf, []byte(ob.Unit.Query(ob)+"\n(check-sat)\n"), 0o644)
		m["query"] = qf
	}
	for k, v := range extra {
		m[k] = v
	}
	data, _ := json.MarshalIndent(m, "", " ")
	_ = os.WriteFile(fn, data, 0o644)
	return fn
}

func sortedKeys(m map[string]bool) []string {
	var out []string
	for k := range m {
		out = append(out, k)
	}
	sort.Strings(out)
	return out
}

func fmtDur(d time.Duration) string { return fmt.Sprintf("%.1fs", d.Seconds()) }

func clipStr(s string, n int) string {
	if len(s) > n {
		return s[:n] + "…"
	}
	return s
}

// reachKind: obligation kinds whose program point gets a reachability (vacuity) query.
func reachKind(kind string) bool {
	return kind == "post" || kind == "loop" || strings.HasPrefix(kind, "call.") || strings.HasPrefix(kind, "inv.") || strings.HasPrefix(kind, "guard.") || strings.HasPrefix(kind, "go.") || strings.HasPrefix(kind, "block.")
}
