package main

import (
	"fmt"
	"os"
	"go/token"
	"go/types"
	"sort"
	"strings"

	"golang.org/x/tools/go/ssa"
)

// calleeNames returns the names under which a call site can be referred to in `at call` clauses.
func calleeNames(c *ssa.CallCommon) (short string, full string) {
	if c.IsInvoke() {
		iface := shortIfaceName(c.Value.Type())
		return c.Method.Name(), iface + "." + c.Method.Name()
	}
	switch f := c.Value.(type) {
	case *ssa.Function:
		return f.Name(), f.String()
	case *ssa.Builtin:
		return f.Name(), f.Name()
	case *ssa.MakeClosure:
		fn := f.Fn.(*ssa.Function)
		return fn.Name(), fn.String()
	case *ssa.UnOp:
		// a function value loaded from a field or a variable: named after it
		if f.Op == token.MUL {
			switch a := f.X.(type) {
			case *ssa.FieldAddr:
				st := a.X.Type().Underlying().(*types.Pointer).Elem().Underlying().(*types.Struct)
				return st.Field(a.Field).Name(), "$dynamic." + st.Field(a.Field).Name()
			case *ssa.Alloc:
				return a.Comment, "$dynamic." + a.Comment
			case *ssa.FreeVar:
				return a.Name(), "$dynamic." + a.Name()
			}
		}
	}
	return "$dynamic", "$dynamic"
}

func shortIfaceName(t types.Type) string {
	if n, ok := t.(*types.Named); ok {
		if n.Obj().Pkg() == nil {
			return n.Obj().Name()
		}
		return n.Obj().Pkg().Path() + "." + n.Obj().Name()
	}
	return t.String()
}

func (fc *FuncCtx) bumpCalls(st *State, name string) {
	if fc.depth > 0 {
		// calls(F) counts the calls made by the function under contract itself, not by callees executed in-line
		return
	}
	k := "$calls:" + name
	cur, ok := st.ghost[k]
	t := "0"
	if ok {
		t = cur.(Scalar).T
	}
	st.ghost[k] = Scalar{fc.u.define("calls", "Int", "(+ "+t+" 1)"), "Int", nil}
}

func (fc *FuncCtx) ghostDefault(st *State, k string) Value {
	switch {
	case strings.HasPrefix(k, "$calls:"), strings.HasPrefix(k, "$ev:"):
		return Scalar{"0", "Int", nil}
	case strings.HasPrefix(k, "$defer:"):
		return Scalar{"false", "Bool", nil}
	case k == "$alloc":
		return Scalar{fc.allocTerm(st), "Int", nil}
	}
	if g := fc.eng.ghostVar(fc.pkgPath, k); g != nil {
		// declared ghost variable: initial value is a symbol of the entry state
		srt := fc.specSort(g.Type)
		return Scalar{fc.u.declConst(qsym("ghost0!"+k), srt), srt, nil}
	}
	return nil
}

// callOrdinal: 1-based ordinal of this call site among the call sites of fn that match `name`, in source order.
func (fc *FuncCtx) callOrdinal(fr *Frame, site ssa.Instruction, name string) int {
	type rec struct {
		pos token.Pos
		ins ssa.Instruction
		blk int
		idx int
	}
	var sites []rec
	for _, b := range fr.fn.Blocks {
		for i, ins := range b.Instrs {
			var cc *ssa.CallCommon
			switch x := ins.(type) {
			case *ssa.Call:
				cc = &x.Call
			case *ssa.Defer:
				cc = &x.Call
			case *ssa.Go:
				cc = &x.Call
			}
			if cc == nil {
				continue
			}
			s, f := calleeNames(cc)
			if s == name || f == name || strings.HasSuffix(f, "."+name) || strings.HasSuffix(f, ")."+name) {
				sites = append(sites, rec{ins.Pos(), ins, b.Index, i})
			}
		}
	}
	sort.Slice(sites, func(i, j int) bool {
		if sites[i].pos != sites[j].pos {
			return sites[i].pos < sites[j].pos
		}
		if sites[i].blk != sites[j].blk {
			return sites[i].blk < sites[j].blk
		}
		return sites[i].idx < sites[j].idx
	})
	for i, s := range sites {
		if s.ins == site {
			return i + 1
		}
	}
	return 0
}

func matchCallee(acName, short, full string) bool {
	return acName == short || acName == full || strings.HasSuffix(full, "."+acName) || strings.HasSuffix(full, ")."+acName) || strings.HasSuffix(full, "/"+acName)
}

// atCallClauses evaluates the caller's `at call` clauses for this site.
func (fc *FuncCtx) atCallClauses(fr *Frame, st *State, site ssa.Instruction, short, full string, extra map[string]Value, pos token.Pos) {
	if fr.con == nil {
		return
	}
	for _, ac := range fr.con.AtCalls {
		if ac.After || !matchCallee(ac.Callee, short, full) {
			continue
		}
		if ac.Ordinal != 0 && site != nil {
			if fc.callOrdinal(fr, site, ac.Callee) != ac.Ordinal {
				continue
			}
		}
		if ac.Assert != nil {
			ev := fc.newEnv(fr, st, fr.entry)
			for k, v := range extra {
				ev.vars[k] = v
			}
			g := ev.evalBool(ac.Assert.E)
			label := ac.Assert.Label
			kind := "call." + ac.Callee
			if ac.Ordinal != 0 {
				kind += fmt.Sprintf("#%d", ac.Ordinal)
			}
			if label == "" {
				label = "assert"
			}
			fc.oblige(fr, st, kind, label, g, pos, "at call "+ac.Callee+": "+ac.Assert.Src)
			fc.clauseHit[ac.Assert]++
		}
		for _, gsrc := range ac.Ghost {
			gu, err := parseGhostUpdate(gsrc)
			if err != nil {
				fc.unsupported("bad ghost update %q: %v", gsrc, err)
			}
			ev := fc.newEnv(fr, st, fr.entry)
			for k, v := range extra {
				ev.vars[k] = v
			}
			fc.applyGhostUpdate(ev, st, gu)
		}
	}
}

// afterCallClauses applies `after call F ghost ...` updates with the call's results bound to ret0, ret1, ...
func (fc *FuncCtx) afterCallClauses(fr *Frame, st *State, site ssa.Instruction, c *ssa.CallCommon, res Value) {
	if fr.con == nil {
		return
	}
	short, full := calleeNames(c)
	for _, ac := range fr.con.AtCalls {
		if !ac.After || !matchCallee(ac.Callee, short, full) {
			continue
		}
		if ac.Ordinal != 0 && site != nil && fc.callOrdinal(fr, site, ac.Callee) != ac.Ordinal {
			continue
		}
		for _, gsrc := range ac.Ghost {
			gu, err := parseGhostUpdate(gsrc)
			if err != nil {
				fc.unsupported("bad ghost update %q: %v", gsrc, err)
			}
			ev := fc.newEnv(fr, st, fr.entry)
			switch r := res.(type) {
			case TupleV:
				for i, e := range r.E {
					ev.vars[fmt.Sprintf("ret%d", i)] = e
				}
			case UnitV:
			default:
				ev.vars["ret0"] = res
			}
			fc.applyGhostUpdate(ev, st, gu)
		}
		fc.afterHit[ac]++
	}
}

func (fc *FuncCtx) execCall(fr *Frame, st *State, site ssa.Instruction, c *ssa.CallCommon, pos token.Pos) Value {
	r := fc.execCall0(fr, st, site, c, pos)
	fc.afterCallClauses(fr, st, site, c, r)
	return r
}

func (fc *FuncCtx) execCall0(fr *Frame, st *State, site ssa.Instruction, c *ssa.CallCommon, pos token.Pos) Value {
	// pointee types of pointer arguments: the callee may write those variables
	saved := fc.havocArgTypes
	fc.havocArgTypes = nil
	for _, a := range c.Args {
		if pt, ok := a.Type().Underlying().(*types.Pointer); ok {
			fc.havocArgTypes = append(fc.havocArgTypes, typeKey(pt.Elem()))
		}
	}
	defer func() { fc.havocArgTypes = saved }()
	// arguments leave the activation's private data
	for _, a := range c.Args {
		if mi, ok := a.(*ssa.MakeInterface); ok {
			fc.publish(st, mi.X.Type())
			continue
		}
		fc.publish(st, a.Type())
	}
	short, full := calleeNames(c)
	var args []Value
	for _, a := range c.Args {
		args = append(args, fc.val(fr, st, a))
	}
	resT := c.Signature().Results()
	mkResult := func(vals []Value) Value {
		switch resT.Len() {
		case 0:
			return UnitV{}
		case 1:
			if len(vals) == 0 {
				return fc.freshValue(st, resT.At(0).Type(), "res")
			}
			return vals[0]
		}
		if len(vals) == 0 {
			return fc.freshValue(st, resT, "res")
		}
		return TupleV{E: vals}
	}
	// builtins
	if b, ok := c.Value.(*ssa.Builtin); ok {
		r := fc.execBuiltin(fr, st, site, b, c, args, pos)
		return r
	}
	if fc.guardMode && len(fc.eng.guardIfaceSites) > 0 {
		// a value whose methods touch foreign-guarded fields is handed to a library call as an interface: the library
		// calls those methods, so the lock is held here (unless the value is still private to this activation)
		for _, a := range c.Args {
			mi, ok := a.(*ssa.MakeInterface)
			if !ok {
				continue
			}
			for _, lock := range fc.eng.guardIfaceSites[mi] {
				switch xv := fc.val(fr, st, mi.X).(type) {
				case Scalar:
					if fc.freshRefs[xv.T] {
						continue
					}
				case PlaceV:
					if (xv.Kind == "obj" || xv.Kind == "cell") && len(xv.Path) == 0 && fc.freshRefs[xv.RefTerm] {
						continue
					}
				}
				if lt, lf, lname := fc.eng.resolveForeignLock(lock); lt != nil {
					fc.oblige(fr, st, "guard.call."+short, "", fc.foreignHeld(st, lt, lf), pos, short+" calls methods of its argument that touch fields guarded by "+lname+" without locking: the caller holds that lock")
				}
			}
		}
	}
	extra := map[string]Value{}
	for i, a := range args {
		extra[fmt.Sprintf("arg%d", i)] = a
	}
	if c.IsInvoke() {
		recv := fc.val(fr, st, c.Value)
		extra["recv"] = recv
		con := fc.eng.ifaceContract(c)
		fc.atCallClauses(fr, st, site, short, full, extra, pos)
		fc.bumpCalls(st, short)
		rs := recv.(Scalar)
		fc.oblige(fr, st, "safety.nil", "", tNot(tEq(rs.T, "0")), pos, "interface value "+c.Value.Name()+" is not nil at method call "+c.Method.Name())
		if con != nil {
			return mkResult(fc.callWithContract(fr, st, con, nil, c, recv, args, pos, full))
		}
		if pureMethod(c.Method.Name(), full) {
			return mkResult(nil)
		}
		fc.u.Assumptions["call through interface "+full+" without contract: may write every object whose type is reachable from the receiver/arguments or implements an interface passed to it"] = true
		fc.havocExternal(st, c)
		fc.bumpAlloc(st)
		return mkResult(nil)
	}
	var fn *ssa.Function
	var bindings []Value
	switch v := c.Value.(type) {
	case *ssa.Function:
		fn = v
	case *ssa.MakeClosure:
		fn = v.Fn.(*ssa.Function)
		cv := fc.val(fr, st, v).(ClosureV)
		bindings = cv.Bindings
	default:
		if cv, ok := fc.val(fr, st, c.Value).(ClosureV); ok && cv.Fn != nil {
			fn = cv.Fn
			bindings = cv.Bindings
		}
	}
	if fn == nil {
		fc.atCallClauses(fr, st, site, short, full, extra, pos)
		fc.u.Assumptions["dynamic call of an unknown function value: arbitrary effect on all modelled heap (sound default)"] = true
		fc.havocAll(st)
		fc.bumpAlloc(st)
		// (counted under the name of the variable or field that holds the function: calls(handle))
		fc.bumpCalls(st, short)
		return mkResult(nil)
	}
	short0, full0 := short, full
	short, full = fn.Name(), fn.String()
	if short0 != short && strings.HasPrefix(full0, "$dynamic.") {
		// a function value called through a variable or field: clauses may name the variable
		fc.atCallClauses(fr, st, site, short0, full0, extra, pos)
	}
	// intrinsics
	if fc.isIntrinsic(fn) {
		fc.atCallClauses(fr, st, site, short, full, extra, pos)
		fc.bumpCalls(st, short)
		r, _ := fc.intrinsic(fr, st, fn, c, args, pos)
		return r
	}
	if fc.guardMode && fc.guardAcc != nil {
		for pi, lock := range fc.guardAcc[fn] {
			if pi < 0 {
				if lt, lf, lname := fc.eng.resolveForeignLock(lock); lt != nil {
					fc.oblige(fr, st, "guard.call."+fn.Name(), "", fc.foreignHeld(st, lt, lf), pos, fn.Name()+" touches fields guarded by "+lname+" without locking: its caller holds that lock")
				}
				continue
			}
			if pi < len(args) {
				pt, isPtr := c.Args[pi].Type().Underlying().(*types.Pointer)
				if !isPtr {
					continue
				}
				var ref string
				switch a := args[pi].(type) {
				case Scalar:
					ref = a.T
				case PlaceV:
					if (a.Kind == "obj" || a.Kind == "cell") && len(a.Path) == 0 {
						ref = a.RefTerm
					}
				}
				if ref == "" || fc.freshRefs[ref] {
					continue
				}
				key := "L!O!" + typeKey(pt.Elem()) + "." + lock
				fc.oblige(fr, st, "guard.call."+fn.Name(), "", fc.heldTerm(st, key, ref), pos, fn.Name()+" touches fields guarded by "+lock+" without locking: its caller holds the lock")
			}
		}
	}
	con := fc.eng.contractForCall(fn, c)
	fc.atCallClauses(fr, st, site, short, full, extra, pos)
	fc.bumpCalls(st, short)
	if con != nil && con.Flags["inline"] == "" {
		return mkResult(fc.callWithContract(fr, st, con, fn, c, nil, args, pos, full))
	}
	if fn.Synthetic == "package initializer" {
		ms := &ModSet{keys: map[string]bool{}}
		fc.eng.fnMod(ms, fn)
		fc.applyModSet(st, ms)
		return mkResult(nil)
	}
	// no contract: inline small in-repo functions / closures
	if fc.eng.inRepo(fn) && len(fn.Blocks) > 0 {
		if fc.depth < 4 && (fc.eng.inlinable(fn) || (con != nil && con.Flags["inline"] != "")) && !fc.inlineStack[fn] {
			return mkResult(fc.inlineCall(fr, st, fn, con, args, bindings, pos))
		}
		ms := fc.eng.funcModSet(fn)
		fc.applyModSet(st, ms)
		fc.u.Assumptions["in-repo callee "+fn.String()+" has no contract: its mechanically inferred write set is havocked, results unconstrained"] = true
		return mkResult(nil)
	}
	// dependency without contract
	if fc.eng.pureDependency(fn) {
		fc.u.Assumptions["dependency "+fn.String()+" assumed not to write modelled state; result unconstrained"] = true
		return mkResult(nil)
	}
	fc.u.Assumptions["dependency "+fn.String()+" without contract: may write every object whose type is reachable from its arguments or implements an interface passed to it"] = true
	fc.havocExternal(st, c)
	fc.bumpAlloc(st)
	return mkResult(nil)
}

func pureMethod(name, full string) bool {
	switch full {
	case "error.Error", "net.Addr.String", "net.Addr.Network", "fmt.Stringer.String":
		return true
	}
	return false
}

func (fc *FuncCtx) applyModSet(st *State, ms *ModSet) {
	if ms.all {
		fc.havocAll(st)
		// channel and once state survives havocAll; the callee's own channel operations do not
		chm := func(key string) bool {
			for k := range ms.keys {
				if (k == "CH" || strings.HasPrefix(k, "CH!")) && strings.HasPrefix(key, "CH!") && (k == "CH" || k == key) {
					return key != "CH!cap"
				}
				if k == "ONCE" && strings.HasPrefix(key, "ONCE!") {
					return true
				}
			}
			return false
		}
		fc.havocKeys(st, chm, "")
		fc.bumpAlloc(st)
		return
	}
	pre := fc.allocTerm(st)
	if len(ms.keys) > 0 {
		fc.havocKeys(st, ms.matcher(), "")
	}
	if fo := ms.freshOnly(); len(fo.keys) > 0 {
		fc.havocKeys(st, fo.matcher(), pre)
	}
	if ms.allocs {
		fc.bumpAlloc(st)
	}
}

// callWithContract: modular call. Returns result values (possibly empty).
func (fc *FuncCtx) callWithContract(fr *Frame, st *State, con *Contract, fn *ssa.Function, c *ssa.CallCommon, recv Value, args []Value, pos token.Pos, name string) []Value {
	vars := map[string]Value{}
	all := args
	if recv != nil {
		vars["recv"] = recv
		vars["self"] = recv
	} else if con.Recv != nil && len(all) > 0 {
		vars[con.Recv.Name] = all[0]
		all = all[1:]
	}
	if len(con.Params) != len(all) {
		fc.driftf(fr, "contract of %s declares %d parameters, call passes %d", con.Key, len(con.Params), len(all))
		fc.havocAll(st)
		return nil
	}
	for i, p := range con.Params {
		vars[p.Name] = all[i]
	}
	calleeUnit := &calleeScope{con: con}
	for _, as := range con.Assumes {
		ev := fc.newEnvVars(st, st, vars, calleeUnit)
		g, ok := fc.tryEvalBool(ev, as.E)
		if !ok {
			continue
		}
		fc.u.fact(st.pc, g)
		fc.u.Assumptions["ghost-state well-formedness assumed for "+con.Key+": "+as.Src] = true
	}
	// requires
	for i, rq := range con.Requires {
		ev := fc.newEnvVars(st, st, vars, calleeUnit)
		g := ev.evalBool(rq.E)
		label := rq.Label
		if label == "" {
			label = fmt.Sprintf("pre#%d", i+1)
		}
		fc.oblige(fr, st, "call."+shortName(con.Key), label, g, pos, "precondition of "+con.Key+": "+rq.Src)
	}
	pre := st.clone()
	// frame
	switch {
	case con.Pure:
	case con.HasAssigns:
		var pats []string
		allFlag := false
		for _, p := range con.Assigns {
			if p == "all" {
				allFlag = true
			}
			if p == "reachable" {
				// the type-directed write set of this call: everything reachable from its arguments
				fc.havocExternal(st, c)
				continue
			}
			if p == "nothing" {
				continue
			}
			pats = append(pats, p)
		}
		if allFlag {
			fc.havocAll(st)
		} else {
			ms := &ModSet{keys: map[string]bool{}}
			for _, p := range pats {
				if (strings.HasPrefix(p, "cellof(") || strings.HasPrefix(p, "rowof(")) && strings.HasSuffix(p, ")") {
					isCell := strings.HasPrefix(p, "cellof(")
					src := p[strings.Index(p, "(")+1 : len(p)-1]
					e, err := ParseExpr(src)
					if err != nil {
						fc.unsupported("bad frame item %q: %v", p, err)
					}
					ev := fc.newEnvVars(st, st, vars, calleeUnit)
					v := ev.eval(e)
					if isCell {
						sc := ev.asScalar(v)
						if sc.Typ == nil {
							fc.unsupported("cellof(%s): untyped", src)
						}
						pt, ok := sc.Typ.Underlying().(*types.Pointer)
						if !ok {
							fc.unsupported("cellof(%s): not a pointer", src)
						}
						// materialise every leaf of the cell first, so that all of them are havocked
						fc.loadAt(st, "O!"+typeKey(pt.Elem()), []string{sc.T}, []string{"Int"}, "", pt.Elem())
						fc.havocCell(st, "O!"+typeKey(pt.Elem()), sc.T)
					} else {
						sv, ok := v.(SliceV)
						if !ok {
							fc.unsupported("rowof(%s): not a slice", src)
						}
						fc.havocRow(st, sv)
					}
					continue
				}
				if strings.HasPrefix(p, "elemsof(") && strings.HasSuffix(p, ")") {
					// only the elements p[0:len(p)] of the named slice parameter may change
					pv, ok := vars[p[8:len(p)-1]].(SliceV)
					if !ok {
						fc.unsupported("elemsof(%s): not a slice parameter", p)
					}
					fc.havocSliceRange(st, pv)
					continue
				}
				ms.keys[fc.assignPattern(p, con)] = true
			}
			if len(ms.keys) > 0 {
				fc.havocKeys(st, ms.matcher(), "")
			}
		}
		fc.bumpAlloc(st)
	case fn != nil && fc.eng.inRepo(fn) && len(fn.Blocks) > 0:
		fc.applyModSet(st, fc.eng.funcModSet(fn))
		fc.bumpAlloc(st)
	default:
		fc.havocAll(st)
		fc.bumpAlloc(st)
	}
	// results
	var results []Value
	sig := c.Signature()
	for i := 0; i < sig.Results().Len(); i++ {
		rv := fc.freshValue(st, sig.Results().At(i).Type(), "r."+shortName(con.Key))
		results = append(results, rv)
		if i < len(con.Results) {
			vars[con.Results[i].Name] = rv
		}
	}
	for _, en := range con.Ensures {
		ev := fc.newEnvVars(st, pre, vars, calleeUnit)
		g, ok := fc.tryEvalBool(ev, en.E)
		if !ok {
			// a clause that cannot be expressed in the caller's integer/string model is not used (fewer assumptions)
			fc.u.Assumptions["postcondition `"+clipStr(en.Src, 80)+"` of "+con.Key+" is not expressible in this caller's model and was not used"] = true
			continue
		}
		fc.u.fact(st.pc, g)
	}
	// ghost updates declared at exit of the callee
	for _, gu := range con.AtExit {
		ev := fc.newEnvVars(st, pre, vars, calleeUnit)
		fc.applyGhostUpdate(ev, st, gu)
	}
	kind := "assumed contract"
	if con.Kind == "func" {
		kind = "verified-separately contract"
	}
	if con.Kind != "func" {
		fc.u.Assumptions[kind+" of "+con.Key+" ("+con.Kind+")"] = true
	}
	return results
}

type calleeScope struct{ con *Contract }

// havocCell: every component of the object family `prefix` may change at reference ref only.
func (fc *FuncCtx) havocCell(st *State, prefix, ref string) {
	// make sure the components of the family that were already touched are handled; untouched ones are
	// materialised lazily and carry no information about other cells anyway
	for k, cur := range st.heap {
		if !(k == prefix || strings.HasPrefix(k, prefix+".")) || strings.HasPrefix(cur, "?") {
			continue
		}
		srt := fc.compSorts[k]
		if !strings.HasPrefix(srt, "(Array Int ") {
			continue
		}
		nxt := fc.u.fresh("cell!"+clip(k, 30), srt)
		fc.u.emit("(assert (forall ((r Int)) (! (=> (not (= r " + ref + ")) (= (select " + nxt + " r) (select " + cur + " r))) :pattern ((select " + nxt + " r)))))")
		// ground instances for the references already in play (saves the solver from finding them by matching)
		for _, t := range fc.idxTermsFor(k) {
			if t != ref {
				fc.u.emit("(assert (=> (not (= " + t + " " + ref + ")) (= (select " + nxt + " " + t + ") (select " + cur + " " + t + "))))")
			}
		}
		st.heap[k] = nxt
	}
}

// havocRow: the element row of the slice's backing array may change arbitrarily; rows of other arrays that
// existed before keep their contents (rows allocated by the operation are arbitrary).
func (fc *FuncCtx) havocRow(st *State, sv SliceV) {
	et := sv.Elem
	prefix := "E!" + typeKey(et)
	a := fc.allocTerm(st)
	// materialise the plain component so that the frame applies to it
	if _, isSt := et.Underlying().(*types.Struct); !isSt || !fc.structIsFlat(et) {
		if _, isSl := et.Underlying().(*types.Slice); !isSl {
			fc.compTerm(st, prefix, arraySort([]string{"Int", fc.intSort()}, fc.sortOf(et)))
		}
	}
	for k, cur := range st.heap {
		if !(k == prefix || strings.HasPrefix(k, prefix+".")) || strings.HasPrefix(cur, "?") {
			continue
		}
		srt := fc.compSorts[k]
		if !strings.HasPrefix(srt, "(Array Int ") {
			continue
		}
		nxt := fc.u.fresh("row!"+clip(k, 30), srt)
		fc.u.emit("(assert (forall ((b Int)) (! (=> (and (not (= b " + sv.Base + ")) (<= b " + a + ")) (= (select " + nxt + " b) (select " + cur + " b))) :pattern ((select " + nxt + " b)))))")
		for _, t := range fc.idxTermsFor(k) {
			if t != sv.Base {
				fc.u.emit("(assert (=> (and (not (= " + t + " " + sv.Base + ")) (<= " + t + " " + a + ")) (= (select " + nxt + " " + t + ") (select " + cur + " " + t + "))))")
			}
		}
		st.heap[k] = nxt
	}
}

// havocSliceRange: the elements sv[0:len] get arbitrary values, everything else in that component is unchanged.
func (fc *FuncCtx) havocSliceRange(st *State, sv SliceV) {
	et := sv.Elem
	if _, isSt := et.Underlying().(*types.Struct); isSt && fc.structIsFlat(et) {
		fc.unsupported("elemsof on struct elements")
	}
	idxSort := fc.intSort()
	srt := fc.sortOf(et)
	key := "E!" + typeKey(et)
	full := arraySort([]string{"Int", idxSort}, srt)
	cur := fc.compTerm(st, key, full)
	row := fc.u.fresh("hrow", "(Array "+idxSort+" "+srt+")")
	inR := tAnd(fc.ile(sv.Off, "i"), fc.ilt("i", fc.iadd(sv.Off, sv.Len)))
	fc.u.fact(st.pc, "(forall ((i "+idxSort+")) (! "+tImp(tNot(inR), tEq("(select "+row+" i)", "(select (select "+cur+" "+sv.Base+") i)"))+" :pattern ((select "+row+" i))))")
	fc.setComp(st, key, full, "(store "+cur+" "+sv.Base+" "+row+")")
}

func shortName(key string) string {
	if i := strings.LastIndex(key, "/"); i >= 0 {
		key = key[i+1:]
	}
	return key
}

// assignPattern: turn an assigns item into a component-key prefix.
func (fc *FuncCtx) assignPattern(p string, con *Contract) string {
	p = strings.TrimSpace(p)
	if strings.Contains(p, "!") {
		return p
	}
	pk := con.Pkg
	if pk == "" {
		pk = fc.pkgPath
	}
	if strings.HasPrefix(p, "elems(") && strings.HasSuffix(p, ")") {
		t := p[6 : len(p)-1]
		if tt := fc.eng.lookupType(pk, t); tt != nil {
			return "E!" + typeKey(tt)
		}
		return "E!" + canonTypeName(t)
	}
	if strings.HasPrefix(p, "ghost ") {
		return "X!" + strings.TrimSpace(p[6:])
	}
	if strings.HasPrefix(p, "chan") {
		return "CH"
	}
	// T.f : field of a struct type in the contract's package
	if dot := strings.Index(p, "."); dot > 0 {
		tn := p[:dot]
		if t := fc.eng.lookupType(pk, tn); t != nil {
			return "O!" + typeKey(t) + p[dot:]
		}
	}
	if t := fc.eng.lookupType(pk, p); t != nil {
		return "O!" + typeKey(t)
	}
	fc.unsupported("cannot resolve assigns item %q", p)
	return ""
}

func canonTypeName(t string) string {
	switch t {
	case "byte":
		return "uint8"
	case "rune":
		return "int32"
	}
	return t
}

// inlineCall executes the callee body in place.
func (fc *FuncCtx) inlineCall(fr *Frame, st *State, fn *ssa.Function, con *Contract, args []Value, bindings []Value, pos token.Pos) []Value {
	fr2 := fc.newFrame(fn, con, fr.prefix+">"+fn.Name())
	fr2.noSafety = con == nil || fr.noSafety
	for i, p := range fn.Params {
		if i < len(args) {
			fr2.vals[p] = args[i]
		}
	}
	for i, fv := range fn.FreeVars {
		if i < len(bindings) {
			fr2.vals[fv] = bindings[i]
		} else {
			fc.unsupported("closure %s called without its bindings", fn.Name())
		}
	}
	fr2.entry = st.clone()
	fr2.entryVars = map[string]Value{}
	for i, p := range fn.Params {
		if i < len(args) {
			fr2.entryVars[p.Name()] = args[i]
		}
	}
	fc.depth++
	fc.inlineStack[fn] = true
	exit, res := fc.execFrame(fr2, st.clone())
	fc.inlineStack[fn] = false
	fc.depth--
	*st = *exit
	return res
}

// ---------- builtins ----------

func (fc *FuncCtx) execBuiltin(fr *Frame, st *State, site ssa.Instruction, b *ssa.Builtin, c *ssa.CallCommon, args []Value, pos token.Pos) Value {
	switch b.Name() {
	case "ssa:deferstack":
		return UnitV{}
	case "ssa:wrapnilchk":
		return args[0]
	case "len", "cap":
		t := c.Args[0].Type()
		switch t.Underlying().(type) {
		case *types.Slice:
			if fc.bytesStr && isByteSlice(t) {
				return Scalar{fc.strLen(args[0].(Scalar).T), "Int", types.Typ[types.Int]}
			}
			sv := args[0].(SliceV)
			if b.Name() == "len" {
				return Scalar{sv.Len, fc.intSort(), types.Typ[types.Int]}
			}
			return Scalar{sv.Cap, fc.intSort(), types.Typ[types.Int]}
		case *types.Basic:
			return Scalar{fc.strLen(args[0].(Scalar).T), "Int", types.Typ[types.Int]}
		case *types.Map:
			mt := t.Underlying().(*types.Map)
			mk := fc.mapKeys(mt)
			m := args[0].(Scalar)
			ln := fc.u.define("maplen", "Int", tIte(tEq(m.T, "0"), "0", fc.mapLen(st, mk, m.T)))
			fc.u.fact(st.pc, "(<= 0 "+ln+")")
			if fc.model == "bv" {
				fc.unsupported("len(map) in model bv")
			}
			return Scalar{ln, "Int", types.Typ[types.Int]}
		case *types.Chan:
			r := fc.freshValue(st, types.Typ[types.Int], "chanlen")
			fc.u.fact(st.pc, fc.ile(fc.ilit(0), r.(Scalar).T))
			return r
		case *types.Pointer:
			if at, ok := t.Underlying().(*types.Pointer).Elem().Underlying().(*types.Array); ok {
				return Scalar{fc.ilit(at.Len()), fc.intSort(), types.Typ[types.Int]}
			}
		case *types.Array:
			return Scalar{fc.ilit(t.Underlying().(*types.Array).Len()), fc.intSort(), types.Typ[types.Int]}
		}
		fc.unsupported("len/cap of %s", t)
	case "append":
		return fc.execAppend(fr, st, c, args, pos)
	case "copy":
		return fc.execCopy(fr, st, c, args, pos)
	case "delete":
		mt := c.Args[0].Type().Underlying().(*types.Map)
		mk := fc.mapKeys(mt)
		m := args[0].(Scalar)
		k := fc.keyTerm(st, args[1], mt.Key())
		fc.mapDelete(st, mk, m.T, k)
		return UnitV{}
	case "close":
		ch := args[0].(Scalar)
		cl := fc.compTerm(st, "CH!closed", "(Array Int Bool)")
		fc.atCallClauses(fr, st, site, "close", "close", map[string]Value{"ch": ch}, pos)
		fc.oblige(fr, st, "safety.close", "", tAnd(tNot(tEq(ch.T, "0")), tNot("(select "+cl+" "+ch.T+")")), pos, "close of a channel that is neither nil nor already closed")
		fc.setComp(st, "CH!closed", "(Array Int Bool)", "(store "+cl+" "+ch.T+" true)")
		fc.bumpEvent(st, "closes", ch.T, "true")
		return UnitV{}
	case "print", "println":
		return UnitV{}
	case "min", "max":
		if len(args) == 2 {
			a, b2 := args[0].(Scalar), args[1].(Scalar)
			t := c.Args[0].Type()
			lt := fc.icmp("<", a.T, b2.T, t)
			if b.Name() == "min" {
				return Scalar{tIte(lt, a.T, b2.T), a.Sort, t}
			}
			return Scalar{tIte(lt, b2.T, a.T), a.Sort, t}
		}
	}
	fc.unsupported("builtin %s", b.Name())
	return nil
}

func (fc *FuncCtx) bumpEvent(st *State, kind, ch, cond string) {
	key := "CH!" + kind
	cur := fc.compTerm(st, key, "(Array Int Int)")
	fc.setComp(st, key, "(Array Int Int)", "(store "+cur+" "+ch+" (+ (select "+cur+" "+ch+") "+tIte(cond, "1", "0")+"))")
}

func (fc *FuncCtx) execAppend(fr *Frame, st *State, c *ssa.CallCommon, args []Value, pos token.Pos) Value {
	t := c.Args[0].Type()
	if fc.bytesStr && isByteSlice(t) {
		a := args[0].(Scalar)
		b := args[1].(Scalar)
		if fc.strmode == "smtlib" {
			return Scalar{fc.u.define("app", "String", "(str.++ "+a.T+" "+b.T+")"), "String", t}
		}
		fc.unsupported("append in bytes-as-strings mode needs smtlib strings")
	}
	sl := t.Underlying().(*types.Slice)
	a := args[0].(SliceV)
	var bLen string
	var bsv SliceV
	var bstr *Scalar
	switch y := args[1].(type) {
	case SliceV:
		bsv = y
		bLen = y.Len
	case Scalar:
		// append([]byte, string...)
		bstr = &y
		bLen = fc.strLen(y.T)
	default:
		fc.unsupported("append argument %T", args[1])
	}
	// result: length a.Len+b.Len; either in place (same base, if capacity suffices) or a fresh base.
	newLen := fc.u.define("applen", fc.intSort(), fc.iadd(a.Len, bLen))
	fits := fc.u.define("fits", "Bool", fc.ile(newLen, a.Cap))
	fresh := fc.newRef(st, "appbase")
	base := fc.u.define("appbase", "Int", tIte(fits, a.Base, fresh))
	off := fc.u.define("appoff", fc.intSort(), tIte(fits, a.Off, fc.ilit(0)))
	ncap := fc.u.fresh("appcap", fc.intSort())
	fc.u.fact(st.pc, tAnd(tImp(fits, tEq(ncap, a.Cap)), tImp(tNot(fits), fc.ile(newLen, ncap)), fc.ile(newLen, ncap)))
	if fc.model == "int" {
		fc.u.fact(st.pc, "(<= "+ncap+" 4611686018427387904)")
		fc.overflowFact(st, newLen)
	} else {
		fc.u.fact(st.pc, fc.ile(ncap, "(_ bv4611686018427387904 64)"))
	}
	res := SliceV{Base: base, Off: off, Len: newLen, Cap: ncap, Elem: sl.Elem()}
	// contents: new backing row R: R[off+i] = old a[a.off+i] for i < a.Len; R[off+a.Len+j] = b[b.off+j]
	fc.appendContents(st, sl.Elem(), "", a, bsv, bstr, res)
	return res
}

func (fc *FuncCtx) overflowFact(st *State, x string) {}

// appendContents defines the element components after an append.
func (fc *FuncCtx) appendContents(st *State, et types.Type, path string, a, b SliceV, bstr *Scalar, res SliceV) {
	idxSort := fc.intSort()
	var leaves []struct {
		path string
		srt  string
	}
	var walk func(t types.Type, p string)
	walk = func(t types.Type, p string) {
		switch u := t.Underlying().(type) {
		case *types.Slice:
			if !(fc.bytesStr && isByteSlice(t)) {
				leaves = append(leaves, struct{ path, srt string }{p + ".base", "Int"}, struct{ path, srt string }{p + ".off", idxSort}, struct{ path, srt string }{p + ".len", idxSort}, struct{ path, srt string }{p + ".cap", idxSort})
				return
			}
		case *types.Struct:
			if fc.structIsFlat(t) {
				for i := 0; i < u.NumFields(); i++ {
					walk(u.Field(i).Type(), p+"."+u.Field(i).Name())
				}
				return
			}
		}
		leaves = append(leaves, struct{ path, srt string }{p, fc.sortOf(t)})
	}
	walk(et, "")
	for _, lf := range leaves {
		key := "E!" + typeKey(et) + lf.path
		full := arraySort([]string{"Int", idxSort}, lf.srt)
		cur := fc.compTerm(st, key, full)
		row := fc.u.fresh("approw", "(Array "+idxSort+" "+lf.srt+")")
		oldRowA := "(select " + cur + " " + a.Base + ")"
		i := "i"
		inA := tAnd(fc.ile(res.Off, i), fc.ilt(i, fc.iadd(res.Off, a.Len)))
		inB := tAnd(fc.ile(fc.iadd(res.Off, a.Len), i), fc.ilt(i, fc.iadd(res.Off, res.Len)))
		srcA := "(select " + oldRowA + " " + fc.iadd(a.Off, fc.isub(i, res.Off)) + ")"
		var srcB string
		if bstr != nil {
			if lf.srt != "Int" {
				fc.unsupported("append of string in model bv")
			}
			j := fc.isub(i, fc.iadd(res.Off, a.Len))
			if fc.strmode == "smtlib" {
				srcB = "(str.to_code (str.at " + bstr.T + " " + j + "))"
			} else {
				fc.u.declare("strat", "(declare-fun strat (Str Int) Int)")
				srcB = "(strat " + bstr.T + " " + j + ")"
			}
		} else {
			oldRowB := "(select " + cur + " " + b.Base + ")"
			srcB = "(select " + oldRowB + " " + fc.iadd(b.Off, fc.isub(i, fc.iadd(res.Off, a.Len))) + ")"
		}
		// in-place case: elements outside the appended range keep their old value
		fitsRow := "(select " + cur + " " + res.Base + ")"
		body := tAnd(
			tImp(inA, tEq("(select "+row+" i)", srcA)),
			tImp(inB, tEq("(select "+row+" i)", srcB)),
			tImp(tAnd(tEq(res.Base, a.Base), tNot(inA), tNot(inB)), tEq("(select "+row+" i)", "(select "+fitsRow+" i)")))
		fc.u.fact(st.pc, "(forall ((i "+idxSort+")) (! "+body+" :pattern ((select "+row+" i))))")
		fc.setComp(st, key, full, "(store "+cur+" "+res.Base+" "+row+")")
	}
}

func (fc *FuncCtx) execCopy(fr *Frame, st *State, c *ssa.CallCommon, args []Value, pos token.Pos) Value {
	dst, ok := args[0].(SliceV)
	if !ok {
		fc.unsupported("copy destination %T", args[0])
	}
	et := dst.Elem
	idxSort := fc.intSort()
	var srcLen string
	var src SliceV
	var sstr *Scalar
	switch y := args[1].(type) {
	case SliceV:
		src = y
		srcLen = y.Len
	case Scalar:
		sstr = &y
		srcLen = fc.strLen(y.T)
	}
	n := fc.u.define("copyn", idxSort, tIte(fc.ilt(dst.Len, srcLen), dst.Len, srcLen))
	if _, isSt := et.Underlying().(*types.Struct); isSt && fc.structIsFlat(et) {
		fc.unsupported("copy of struct elements")
	}
	if _, isSl := et.Underlying().(*types.Slice); isSl {
		fc.unsupported("copy of slice elements")
	}
	srt := fc.sortOf(et)
	key := "E!" + typeKey(et)
	full := arraySort([]string{"Int", idxSort}, srt)
	cur := fc.compTerm(st, key, full)
	row := fc.u.fresh("copyrow", "(Array "+idxSort+" "+srt+")")
	inR := tAnd(fc.ile(dst.Off, "i"), fc.ilt("i", fc.iadd(dst.Off, n)))
	var srcT string
	if sstr != nil {
		j := fc.isub("i", dst.Off)
		if fc.strmode == "smtlib" {
			srcT = "(str.to_code (str.at " + sstr.T + " " + j + "))"
		} else {
			fc.u.declare("strat", "(declare-fun strat (Str Int) Int)")
			srcT = "(strat " + sstr.T + " " + j + ")"
		}
	} else {
		srcT = "(select (select " + cur + " " + src.Base + ") " + fc.iadd(src.Off, fc.isub("i", dst.Off)) + ")"
	}
	body := tAnd(tImp(inR, tEq("(select "+row+" i)", srcT)), tImp(tNot(inR), tEq("(select "+row+" i)", "(select (select "+cur+" "+dst.Base+") i)")))
	fc.u.fact(st.pc, "(forall ((i "+idxSort+")) (! "+body+" :pattern ((select "+row+" i))))")
	fc.setComp(st, key, full, "(store "+cur+" "+dst.Base+" "+row+")")
	return Scalar{n, idxSort, types.Typ[types.Int]}
}

// ---------- intrinsics: locks, atomics ----------

func (fc *FuncCtx) isIntrinsic(fn *ssa.Function) bool {
	switch fn.String() {
	case "(*sync.Mutex).Lock", "(*sync.RWMutex).Lock", "(*sync.RWMutex).RLock", "(*sync.Mutex).Unlock", "(*sync.RWMutex).Unlock", "(*sync.RWMutex).RUnlock",
		"sync/atomic.AddUint64", "sync/atomic.AddInt64", "sync/atomic.AddUint32", "sync/atomic.AddInt32",
		"sync/atomic.LoadUint64", "sync/atomic.LoadInt64", "sync/atomic.LoadUint32", "sync/atomic.LoadInt32",
		"sync/atomic.StoreUint64", "sync/atomic.StoreInt64", "sync/atomic.StoreUint32", "sync/atomic.StoreInt32",
		"math.Ceil", "math.Floor", "(*sync.Once).Do":
		return true
	}
	return false
}

func (fc *FuncCtx) intrinsic(fr *Frame, st *State, fn *ssa.Function, c *ssa.CallCommon, args []Value, pos token.Pos) (Value, bool) {
	full := fn.String()
	switch full {
	case "(*sync.Mutex).Lock", "(*sync.RWMutex).Lock", "(*sync.RWMutex).RLock":
		fc.lockOp(fr, st, args[0], true, full, pos)
		return UnitV{}, true
	case "(*sync.Mutex).Unlock", "(*sync.RWMutex).Unlock", "(*sync.RWMutex).RUnlock":
		fc.lockOp(fr, st, args[0], false, full, pos)
		return UnitV{}, true
	case "sync/atomic.AddUint64", "sync/atomic.AddInt64", "sync/atomic.AddUint32", "sync/atomic.AddInt32":
		p, ok := args[0].(PlaceV)
		if !ok {
			sc := args[0].(Scalar)
			p = fc.objPlace(sc.T, c.Args[0].Type().(*types.Pointer).Elem())
		}
		fc.atomicAccess(fr, st, p, pos)
		cur := fc.loadPlace(st, p).(Scalar)
		d := args[1].(Scalar)
		var r string
		if fc.model == "bv" {
			r = "(bvadd " + cur.T + " " + d.T + ")"
		} else {
			r = "(+ " + cur.T + " " + d.T + ")"
			// atomic add wraps; in model int we demand no wrap like for ordinary arithmetic
			fc.overflowCheck(fr, st, r, p.Typ, pos)
		}
		nv := Scalar{fc.u.define("atomic", cur.Sort, r), cur.Sort, p.Typ}
		fc.storePlace(st, p, nv)
		return nv, true
	case "sync/atomic.LoadUint64", "sync/atomic.LoadInt64", "sync/atomic.LoadUint32", "sync/atomic.LoadInt32":
		p, ok := args[0].(PlaceV)
		if !ok {
			sc := args[0].(Scalar)
			p = fc.objPlace(sc.T, c.Args[0].Type().(*types.Pointer).Elem())
		}
		fc.atomicAccess(fr, st, p, pos)
		return fc.loadPlace(st, p), true
	case "sync/atomic.StoreUint64", "sync/atomic.StoreInt64", "sync/atomic.StoreUint32", "sync/atomic.StoreInt32":
		p, ok := args[0].(PlaceV)
		if !ok {
			sc := args[0].(Scalar)
			p = fc.objPlace(sc.T, c.Args[0].Type().(*types.Pointer).Elem())
		}
		fc.atomicAccess(fr, st, p, pos)
		fc.storePlace(st, p, args[1])
		return UnitV{}, true
	case "(*sync.Once).Do":
		key, ref, _, _ := fc.lockKey(args[0])
		key = "ONCE!" + strings.TrimPrefix(key, "L!")
		cur := fc.compTerm(st, key, "(Array Int Bool)")
		done := fc.u.define("once.done", "Bool", "(select "+cur+" "+ref+")")
		cv, ok := args[1].(ClosureV)
		if !ok || cv.Fn == nil {
			fc.unsupported("sync.Once.Do with an unknown function value")
		}
		s1 := st.clone()
		s1.pc = fc.u.define("pc.once", "Bool", tAnd(st.pc, tNot(done)))
		s2 := st.clone()
		s2.pc = fc.u.define("pc.onceskip", "Bool", tAnd(st.pc, done))
		fc.setComp(s1, key, "(Array Int Bool)", "(store "+cur+" "+ref+" true)")
		fc.inlineCall(fr, s1, cv.Fn, fc.eng.contractFor(cv.Fn), nil, cv.Bindings, pos)
		m := fc.mergeStates([]*State{s1, s2})
		*st = *m
		fc.u.Assumptions["sync.Once.Do runs its function exactly once, the first time (ghost flag per Once value)"] = true
		return UnitV{}, true
	case "math.Ceil":
		x := args[0].(Scalar)
		return Scalar{"(fp.roundToIntegral RTP " + x.T + ")", floatSort, types.Typ[types.Float64]}, true
	case "math.Floor":
		x := args[0].(Scalar)
		return Scalar{"(fp.roundToIntegral RTN " + x.T + ")", floatSort, types.Typ[types.Float64]}, true
	}
	return nil, false
}

// lock identity: the place of the mutex
func (fc *FuncCtx) lockKey(p Value) (key string, ref string, owner types.Type, field string) {
	pl, ok := p.(PlaceV)
	if !ok {
		// pointer to a bare mutex object
		if sc, ok := p.(Scalar); ok {
			return "L!bare", sc.T, nil, ""
		}
		fc.unsupported("lock receiver %T", p)
	}
	switch pl.Kind {
	case "obj", "cell":
		return "L!" + pl.Prefix + pathStr(pl.Path), pl.Idx[0], pl.Root, strings.Join(pl.Path, ".")
	case "global":
		return "L!G!" + globalKey(pl.Global) + pathStr(pl.Path), "0", nil, ""
	case "local":
		return fmt.Sprintf("L!local%d.%s", pl.Local.frame, pl.Local.a.Comment) + pathStr(pl.Path), "0", nil, ""
	}
	fc.unsupported("lock on place kind %s", pl.Kind)
	return
}

func (fc *FuncCtx) heldTerm(st *State, key, ref string) string {
	h := fc.compTerm(st, key, "(Array Int Bool)")
	return "(select " + h + " " + ref + ")"
}

func (fc *FuncCtx) lockOp(fr *Frame, st *State, recv Value, acquire bool, full string, pos token.Pos) {
	key, ref, owner, field := fc.lockKey(recv)
	h := fc.compTerm(st, key, "(Array Int Bool)")
	if acquire {
		// acquiring a lock we already hold would deadlock
		fc.oblige(fr, st, "lock.reacquire", "", tNot("(select "+h+" "+ref+")"), pos, "lock is not already held by this activation (self-deadlock)")
		fc.setComp(st, key, "(Array Int Bool)", "(store "+h+" "+ref+" true)")
		// read mode (RWMutex.RLock): the lock excludes writers only; a guarded WRITE needs the lock in write mode
		rm := fc.compTerm(st, "L!R!"+key, "(Array Int Bool)")
		if strings.HasSuffix(full, ".RLock") {
			fc.setComp(st, "L!R!"+key, "(Array Int Bool)", "(store "+rm+" "+ref+" true)")
		} else {
			fc.setComp(st, "L!R!"+key, "(Array Int Bool)", "(store "+rm+" "+ref+" false)")
		}
		st.heldLocks = append(st.heldLocks, key+"|"+ref)
		fc.monitorEnter(fr, st, owner, field, ref, pos)
	} else {
		fc.monitorExit(fr, st, owner, field, ref, pos)
		fc.oblige(fr, st, "lock.release", "", "(select "+h+" "+ref+")", pos, "unlock of a lock that is held")
		if strings.HasSuffix(full, "RWMutex).Unlock") || strings.HasSuffix(full, ".RUnlock") {
			rm := fc.compTerm(st, "L!R!"+key, "(Array Int Bool)")
			want := "(select " + rm + " " + ref + ")"
			if strings.HasSuffix(full, "RWMutex).Unlock") {
				want = tNot(want)
			}
			fc.oblige(fr, st, "lock.release", "", want, pos, "an RWMutex is released in the mode it was acquired in (RLock/RUnlock, Lock/Unlock)")
		}
		h = fc.compTerm(st, key, "(Array Int Bool)")
		fc.setComp(st, key, "(Array Int Bool)", "(store "+h+" "+ref+" false)")
	}
}

// ---------- go / defer ----------

func (fc *FuncCtx) execGo(fr *Frame, st *State, x *ssa.Go) {
	short, full := calleeNames(&x.Call)
	extra := map[string]Value{}
	for i, a := range x.Call.Args {
		extra[fmt.Sprintf("arg%d", i)] = fc.val(fr, st, a)
	}
	fc.atCallClauses(fr, st, x, short, full, extra, x.Pos())
	fc.bumpCalls(st, "go:"+short)
	if sf := x.Call.StaticCallee(); sf != nil && fc.guardMode && fc.guardAcc != nil && len(fc.guardAcc[sf]) > 0 {
		fc.oblige(fr, st, "guard.call."+sf.Name(), "", "false", x.Pos(), sf.Name()+" touches guarded fields without locking and is started as a goroutine, which holds no lock")
	}
	// the spawned goroutine runs concurrently: everything it may write that is not monitor-protected becomes volatile
	var fn *ssa.Function
	switch v := x.Call.Value.(type) {
	case *ssa.Function:
		fn = v
	case *ssa.MakeClosure:
		fn = v.Fn.(*ssa.Function)
	}
	if fn != nil {
		if con := fc.eng.contractFor(fn); con != nil && len(con.Requires) > 0 {
			// the spawned function's precondition must hold where it is started (free variables of a closure are
			// the spawner's own variables of the same name)
			vars := map[string]Value{}
			var rest []Value
			for _, a := range x.Call.Args {
				rest = append(rest, fc.val(fr, st, a))
			}
			if con.Recv != nil && len(rest) > 0 {
				vars[con.Recv.Name] = rest[0]
				rest = rest[1:]
			}
			for i, p := range con.Params {
				if i < len(rest) {
					vars[p.Name] = rest[i]
				}
			}
			for i, rq := range con.Requires {
				ev := fc.newEnv(fr, st, fr.entry)
				for k, v := range vars {
					ev.vars[k] = v
				}
				g := ev.evalBool(rq.E)
				label := rq.Label
				if label == "" {
					label = fmt.Sprintf("pre#%d", i+1)
				}
				fc.oblige(fr, st, "go."+fn.Name(), label, g, x.Pos(), "precondition of the goroutine "+fn.Name()+" holds where it is started: "+rq.Src)
			}
		}
	}
	fc.u.Assumptions["goroutines started with `go` are not executed by the caller's proof; state they may write that is not monitor-protected is treated as volatile afterwards"] = true
	if fn == nil || !fc.eng.inRepo(fn) || len(fn.Blocks) == 0 {
		if fn != nil && fc.eng.pureDependency(fn) {
			return
		}
		fc.havocAll(st)
		st.volatileAll = true
		return
	}
	ms := fc.eng.funcModSet(fn)
	if ms.all {
		fc.havocAll(st)
		st.volatileAll = true
		return
	}
	keys := map[string]bool{}
	for k := range ms.keys {
		if k == "CH" || k == "L" || k == "ONCE" || strings.HasPrefix(k, "CH!") || strings.HasPrefix(k, "L!") || fc.eng.monitorProtected(k) {
			continue
		}
		keys[k] = true
	}
	if len(keys) > 0 {
		m := (&ModSet{keys: keys}).matcher()
		fc.havocKeys(st, m, "")
		st.volatile = append(st.volatile, m)
	}
}

type deferRec struct {
	args  []Value
	recv  Value
	state *State
}

func (fc *FuncCtx) execDefer(fr *Frame, st *State, x *ssa.Defer) {
	idx := -1
	for i, d := range fr.defers {
		if d == x {
			idx = i
		}
	}
	var args []Value
	for _, a := range x.Call.Args {
		args = append(args, fc.val(fr, st, a))
	}
	rec := &deferRec{args: args}
	if x.Call.IsInvoke() {
		rec.recv = fc.val(fr, st, x.Call.Value)
	} else if _, isB := x.Call.Value.(*ssa.Builtin); !isB {
		if _, isF := x.Call.Value.(*ssa.Function); !isF {
			rec.recv = fc.val(fr, st, x.Call.Value)
		}
	}
	fc.deferRecs[deferKey{fr.id, idx}] = rec
	st.ghost[fmt.Sprintf("$defer:%d:%d", fr.id, idx)] = Scalar{"true", "Bool", nil}
}

type deferKey struct{ frame, idx int }

func (fc *FuncCtx) execRunDefers(fr *Frame, st *State, x *ssa.RunDefers) {
	for i := len(fr.defers) - 1; i >= 0; i-- {
		d := fr.defers[i]
		k := fmt.Sprintf("$defer:%d:%d", fr.id, i)
		flagV, ok := st.ghost[k]
		if !ok {
			continue
		}
		flag := flagV.(Scalar).T
		if flag == "false" {
			continue
		}
		rec := fc.deferRecs[deferKey{fr.id, i}]
		if rec == nil {
			continue
		}
		run := func(s *State) {
			// temporarily bind the recorded argument values
			saved := map[ssa.Value]Value{}
			for j, a := range d.Call.Args {
				if _, isConst := a.(*ssa.Const); isConst {
					continue
				}
				if old, ok := fr.vals[a]; ok {
					saved[a] = old
				}
				fr.vals[a] = rec.args[j]
			}
			fc.execCall(fr, s, d, &d.Call, d.Pos())
			for a, v := range saved {
				fr.vals[a] = v
			}
		}
		if flag == "true" {
			run(st)
			continue
		}
		s1 := st.clone()
		s1.pc = fc.u.define("pc.defer", "Bool", tAnd(st.pc, flag))
		s2 := st.clone()
		s2.pc = fc.u.define("pc.nodefer", "Bool", tAnd(st.pc, tNot(flag)))
		run(s1)
		m := fc.mergeStates([]*State{s1, s2})
		*st = *m
	}
}

// ---------- channels ----------

func (fc *FuncCtx) execSend(fr *Frame, st *State, x *ssa.Send) {
	fc.publish(st, x.X.Type())
	ch := fc.val(fr, st, x.Chan).(Scalar)
	fc.atCallClauses(fr, st, x, "send", "send", map[string]Value{"ch": ch, "value": fc.val(fr, st, x.X)}, x.Pos())
	if fr.con != nil && fr.con.Flags["sendclosed"] != "" {
		cl := fc.compTerm(st, "CH!closed", "(Array Int Bool)")
		fc.oblige(fr, st, "safety.sendclosed", "", tNot("(select "+cl+" "+ch.T+")"), x.Pos(), "send on a channel that is not closed")
	} else {
		fc.u.Assumptions["a send does not hit a closed channel (checked only in functions whose contract sets `flag sendclosed`)"] = true
	}
	fc.chanSendObligation(fr, st, x.Chan, fc.val(fr, st, x.X), x.Pos())
	fc.blockingOp(fr, st, "send", x, ch.T, x.Pos())
	fc.bumpEvent(st, "sends", ch.T, "true")
}

// chanSendObligation / chanRecvFact: `channel T.f carries e` is proved at sends and assumed at receives.
func (fc *FuncCtx) chanSendObligation(fr *Frame, st *State, chv ssa.Value, val Value, pos token.Pos) {
	d := fc.eng.chanDeclFor(chv)
	if d == nil {
		return
	}
	ev := fc.newEnv(fr, st, fr.entry)
	ev.pkg = d.Pkg
	ev.fr = nil
	ev.vars["value"] = val
	g := ev.evalBool(d.E)
	fc.oblige(fr, st, "channel."+d.Type+"."+d.Field, "carries", g, pos, "value sent on "+d.Type+"."+d.Field+" satisfies the channel contract: "+d.Src)
}

func (fc *FuncCtx) chanRecvFact(fr *Frame, st *State, chv ssa.Value, val Value, cond string) {
	d := fc.eng.chanDeclFor(chv)
	if d == nil {
		return
	}
	ev := fc.newEnv(fr, st, fr.entry)
	ev.pkg = d.Pkg
	ev.fr = nil
	ev.vars["value"] = val
	if g, ok := fc.tryEvalBool(ev, d.E); ok {
		fc.u.fact(st.pc, tImp(cond, g))
		fc.u.Assumptions["channel contract of "+d.Type+"."+d.Field+" (every value sent on it satisfies `"+d.Src+"`: proved at each send through the field; no send through an alias: structural obligation)"] = true
	}
}

func (fc *FuncCtx) execRecv(fr *Frame, st *State, x *ssa.UnOp) Value {
	ch := fc.val(fr, st, x.X).(Scalar)
	fc.blockingOp(fr, st, "recv", x, ch.T, x.Pos())
	fc.bumpEvent(st, "recvs", ch.T, "true")
	et := x.X.Type().Underlying().(*types.Chan).Elem()
	v := fc.freshValue(st, et, "recv")
	if x.CommaOk {
		okv := fc.u.fresh("recv.ok", "Bool")
		fc.chanRecvFact(fr, st, x.X, v, okv)
		return TupleV{E: []Value{v, Scalar{okv, "Bool", types.Typ[types.Bool]}}}
	}
	// without comma-ok a zero value from a closed channel cannot be told apart: no fact
	return v
}

func (fc *FuncCtx) execSelect(fr *Frame, st *State, x *ssa.Select) Value {
	// `at call select ...` clauses apply just before a select statement
	fc.atCallClauses(fr, st, x, "select", "select", map[string]Value{}, x.Pos())
	n := len(x.States)
	idx := fc.u.fresh("select.idx", "Int")
	lo := "0"
	if !x.Blocking {
		lo = "(- 1)"
	}
	fc.u.fact(st.pc, fmt.Sprintf("(and (<= %s %s) (< %s %d))", lo, idx, idx, n))
	var idxV Value
	if fc.model == "bv" {
		iv := fc.u.fresh("select.idxbv", fc.intSort())
		for k := -1; k < n; k++ {
			fc.u.fact(st.pc, fmt.Sprintf("(= (= %s %s) (= %s %s))", idx, intLitStrI(k), iv, fc.ilit(int64(k))))
		}
		idxV = Scalar{iv, fc.intSort(), types.Typ[types.Int]}
	} else {
		idxV = Scalar{idx, "Int", types.Typ[types.Int]}
	}
	out := []Value{idxV, Scalar{fc.u.fresh("select.recvok", "Bool"), "Bool", types.Typ[types.Bool]}}
	cl := fc.compTerm(st, "CH!closed", "(Array Int Bool)")
	closeOnly := map[string]bool{}
	if fr.con != nil {
		for _, n := range strings.Split(fr.con.Flags["closeonly"], ",") {
			if n != "" {
				closeOnly[n] = true
			}
		}
	}
	for k, s := range x.States {
		ch := fc.val(fr, st, s.Chan).(Scalar)
		taken := fmt.Sprintf("(= %s %d)", idx, k)
		if s.Dir == types.SendOnly {
			fc.publish(st, s.Send.Type())
			// the value offered on this case (call-site obligations on sends apply to select cases too)
			fc.atCallClauses(fr, st, x, "send", "send", map[string]Value{"ch": ch, "value": fc.val(fr, st, s.Send)}, x.Pos())
			fc.chanSendObligation(fr, st, s.Chan, fc.val(fr, st, s.Send), x.Pos())
			if fr.con != nil && fr.con.Flags["sendclosed"] != "" {
				// a send case on a closed channel panics as soon as the select evaluates it
				fc.oblige(fr, st, "safety.sendclosed", "", tNot("(select "+cl+" "+ch.T+")"), x.Pos(), "send case of a select on a channel that is not closed")
			}
			fc.bumpEvent(st, "sends", ch.T, taken)
		} else {
			fc.bumpEvent(st, "recvs", ch.T, taken)
			et := s.Chan.Type().Underlying().(*types.Chan).Elem()
			out = append(out, fc.freshValue(st, et, "select.recv"))
			// a receive from a closed channel is always ready: if no case was taken, the channel is not closed
			if !x.Blocking {
				fc.u.fact(st.pc, tImp("(= "+idx+" (- 1))", tNot("(select "+cl+" "+ch.T+")")))
			}
			// a channel that is only ever closed (never sent on): its receive case is taken only when it is closed
			for n := range closeOnly {
				if chanNamed(s.Chan, n) {
					fc.u.fact(st.pc, tImp(taken, "(select "+cl+" "+ch.T+")"))
					fc.u.Assumptions["channel "+n+" is close-only (nothing is ever sent on it), so its receive case fires only once it is closed"] = true
				}
			}
		}
	}
	fc.selectOp(fr, st, x, idx)
	return TupleV{E: out}
}

func intLitStrI(k int) string {
	if k < 0 {
		return fmt.Sprintf("(- %d)", -k)
	}
	return fmt.Sprintf("%d", k)
}

// tryEvalBool evaluates a clause, reporting failure instead of aborting the function (nothing is emitted on failure
// except harmless declarations).
func (fc *FuncCtx) tryEvalBool(ev *Env, e Expr) (g string, ok bool) {
	mark := len(fc.u.Log)
	defer func() {
		if r := recover(); r != nil {
			if _, isU := r.(unsupportedErr); isU {
				// drop partial definitions/facts of the failed translation, keep declarations
				var keep []string
				for _, l := range fc.u.Log[mark:] {
					if strings.HasPrefix(l, "(declare-") || strings.HasPrefix(l, "(define-fun") {
						keep = append(keep, l)
					}
				}
				fc.u.Log = append(fc.u.Log[:mark], keep...)
				fc.u.quant = 0
				g, ok = "", false
				return
			}
			panic(r)
		}
	}()
	return ev.evalBool(e), true
}

// havocExternal: effect of code outside the repository for which there is no contract. It can only write
//  - objects whose (struct) type is reachable from the static types of the arguments it is handed (through pointers,
//    slices, maps, struct fields), including the operand types of interface conversions at the call;
//  - objects of in-repo types that implement an interface-typed argument (it may call their methods);
//  - the elements of slices / entries of maps reachable in the same way; ghost state attached to those types;
// and, if it is handed a function value, anything (that function may be ours).
func (fc *FuncCtx) havocExternal(st *State, c *ssa.CallCommon) {
	types_, elems, maps_, ghostOwners, anything := fc.eng.externalWriteSet(c)
	if os.Getenv("SFDEBUG") != "" {
		_, full := calleeNames(c)
		fmt.Fprintf(os.Stderr, "havocExternal %s anything=%v types=%v\n", full, anything, sortedKeys(types_))
	}
	if anything {
		fc.havocAll(st)
		fc.bumpAlloc(st)
		return
	}
	for _, a := range c.Args {
		if fn := fc.eng.repoFuncValue(a); fn != nil {
			// the dependency may call this function of ours any number of times
			fc.applyModSet(st, fc.eng.funcModSet(fn))
			fc.u.Assumptions["a function value handed to a dependency is called by it only during that call (no retained callback)"] = true
		}
	}
	match := func(key string) bool {
		switch {
		case strings.HasPrefix(key, "O!"):
			rest := key[2:]
			for t := range types_ {
				if rest == t || strings.HasPrefix(rest, t+".") {
					return !fc.eng.immutableKey(key)
				}
			}
		case strings.HasPrefix(key, "E!"):
			rest := key[2:]
			for t := range elems {
				if rest == t || strings.HasPrefix(rest, t+".") {
					return true
				}
			}
		case strings.HasPrefix(key, "MH!"), strings.HasPrefix(key, "MV!"), strings.HasPrefix(key, "ML!"):
			rest := key[3:]
			for t := range maps_ {
				if rest == t || strings.HasPrefix(rest, t+".") {
					return true
				}
			}
		case strings.HasPrefix(key, "X!"):
			rest := key[2:]
			for o := range ghostOwners {
				if strings.HasPrefix(rest, o+".") {
					return true
				}
			}
		case strings.HasPrefix(key, "G!"):
			// package-level variables of this repository are not reachable from a dependency
			return false
		}
		return false
	}
	fc.havocKeys(st, match, "")
	fc.bumpAlloc(st)
}
