package main

import (
	"flag"
	"fmt"
	"go/types"
	"os"
	"path/filepath"
	"sort"
	"strconv"
	"strings"
	"time"

	"golang.org/x/tools/go/ssa"
)

const verifDir = "/verif"

func main() {
	if len(os.Args) < 2 {
		usage()
	}
	switch os.Args[1] {
	case "check":
		os.Exit(cmdCheck(os.Args[2:]))
	case "dump":
		cmdDump(os.Args[2:])
	case "replay":
		os.Exit(cmdReplay(os.Args[2:]))
	case "list":
		os.Exit(cmdList(os.Args[2:]))
	case "sweep":
		os.Exit(cmdSweep(os.Args[2:]))
	case "fields":
		os.Exit(cmdFields(os.Args[2:]))
	case "selftest":
		os.Exit(cmdSelftest(os.Args[2:]))
	default:
		usage()
	}
}

func usage() {
	fmt.Fprintln(os.Stderr, "usage: sfverify check <Cxx> [--tier quick|thorough] [--repo /repo] [--only regexp] [--dump dir]\n       sfverify dump <func> <pkg pattern>\n       sfverify replay <path>\n       sfverify list\n       sfverify selftest [--only name]")
	os.Exit(2)
}

func repoPatterns() []string { return []string{"./..."} }

func cmdList(args []string) int {
	e, err := LoadEngine("/repo", repoPatterns(), filepath.Join(verifDir, "prelude"))
	if err != nil {
		fmt.Println(err)
		return 2
	}
	for _, er := range e.ContractErrors() {
		fmt.Println("CONTRACT-ERROR", er)
	}
	var keys []string
	for k, c := range e.contracts {
		keys = append(keys, fmt.Sprintf("%-10s %-90s props=%v", c.Kind, k, c.Props))
	}
	sort.Strings(keys)
	for _, k := range keys {
		fmt.Println(k)
	}
	return 0
}

// selectContracts: contracts tagged with the property, plus the in-repo callee contracts they rely on.
func (e *Engine) selectContracts(prop string) []*Contract {
	sel := map[*Contract]bool{}
	var work []*Contract
	for _, c := range e.contracts {
		if c.Kind != "func" {
			continue
		}
		for _, p := range c.Props {
			if p == prop {
				sel[c] = true
				work = append(work, c)
			}
		}
	}
	// callees without a contract are executed in-line: the contracts THEY rely on belong to the check as well
	seenInline := map[*ssa.Function]bool{}
	var scan func(fn *ssa.Function, depth int)
	scan = func(fn *ssa.Function, depth int) {
		for _, b := range fn.Blocks {
			for _, ins := range b.Instrs {
				var cc *ssa.CallCommon
				switch x := ins.(type) {
				case *ssa.Call:
					cc = &x.Call
				case *ssa.Defer:
					cc = &x.Call
				case *ssa.Go:
					cc = &x.Call
				}
				if cc == nil {
					continue
				}
				if callee := cc.StaticCallee(); callee != nil && e.inRepo(callee) {
					if cc2 := e.contractFor(callee); cc2 != nil {
						if !sel[cc2] {
							sel[cc2] = true
							work = append(work, cc2)
						}
					} else if !seenInline[callee] && depth < 4 && len(callee.Blocks) > 0 {
						seenInline[callee] = true
						scan(callee, depth+1)
					}
				}
			}
		}
	}
	for len(work) > 0 {
		c := work[len(work)-1]
		work = work[:len(work)-1]
		fn := e.findFunc(c.Pkg, c.Key)
		if fn == nil {
			continue
		}
		scan(fn, 0)
	}
	var out []*Contract
	for c := range sel {
		out = append(out, c)
	}
	sort.Slice(out, func(i, j int) bool { return out[i].Pkg+out[i].Key < out[j].Pkg+out[j].Key })
	return out
}

func cmdCheck(args []string) int {
	if len(args) < 1 {
		usage()
	}
	prop := args[0]
	fs := flag.NewFlagSet("check", flag.ExitOnError)
	tier := fs.String("tier", envOr("VERIF_TIER", "quick"), "quick|thorough")
	repo := fs.String("repo", "/repo", "repository root")
	only := fs.String("only", "", "substring filter on function names (debugging; evidence is not written)")
	dump := fs.String("dump", "", "dump queries to this directory")
	verbose := fs.Bool("v", false, "verbose")
	diagnose := fs.Bool("diagnose", false, "for failing conjunctions, report which conjuncts fail")
	noEvidence := fs.Bool("no-evidence", false, "do not write the evidence file")
	replayDir := fs.String("replays", filepath.Join(verifDir, "replays"), "directory for replay files")
	fs.Parse(args[1:])
	seed, _ := strconv.Atoi(envOr("VERIF_SEED", "0"))
	start := time.Now()

	e, err := LoadEngine(*repo, repoPatterns(), filepath.Join(verifDir, "prelude"))
	if err != nil {
		fmt.Println(err)
		fmt.Printf("BUILD-ERROR property=%s: the tree does not load/type-check; nothing was verified\n", prop)
		return 2
	}
	if errs := e.ContractErrors(); len(errs) > 0 {
		for _, er := range errs {
			fmt.Println("CONTRACT-ERROR", er)
		}
		return 2
	}
	cons := e.selectContracts(prop)
	var units []*Unit
	var obls []*Obligation
	var funcs []string
	hashes := map[string]string{}
	for _, c := range cons {
		if *only != "" && !strings.Contains(c.Key, *only) {
			continue
		}
		u := e.VerifyFunc(c)
		units = append(units, u)
		obls = append(obls, u.Obls...)
		funcs = append(funcs, shortPkg(c.Pkg)+"."+c.Key)
		hashes[shortPkg(c.Pkg)+"."+c.Key] = c.Hash()
		if prop != "C20" {
			// variables shared with goroutines the function starts (C20 scans every function of the repository)
			if fn := e.findFunc(c.Pkg, c.Key); fn != nil {
				obls = append(obls, e.captureObligations(fn, []string{prop})...)
			}
		}
	}
	// package initialisers establish the `global` facts tagged with this property
	initCons := map[string]*Contract{}
	for _, gf := range e.globals {
		has := false
		for _, p := range gf.Props {
			if p == prop {
				has = true
			}
		}
		if !has {
			continue
		}
		c := initCons[gf.Pkg]
		if c == nil {
			c = &Contract{Kind: "func", Pkg: gf.Pkg, Key: "init", Loops: map[int]*LoopSpec{}, Flags: map[string]string{}, Props: []string{prop}, Model: "int"}
			initCons[gf.Pkg] = c
		}
		c.Ensures = append(c.Ensures, gf.Clause)
		c.Text = append(c.Text, "global "+gf.Clause.Src)
	}
	for _, c := range initCons {
		if *only != "" && !strings.Contains("init", *only) {
			continue
		}
		u := e.VerifyFunc(c)
		units = append(units, u)
		obls = append(obls, u.Obls...)
		funcs = append(funcs, shortPkg(c.Pkg)+".init")
		// the fact may be assumed elsewhere only if the variable is written by the initialiser alone
		for _, en := range c.Ensures {
			for _, name := range identsOf(en.E) {
				if obj := e.lookupObject(c.Pkg, name); obj != nil {
					if v, ok := obj.(*types.Var); ok {
						if g := e.globalFor(v); g != nil {
							ok2 := e.globalImmutable(g)
							o := &Obligation{Name: shortPkg(c.Pkg) + ".init/global-assigned-only-by-init." + name, Kind: "global-immutable", Func: shortPkg(c.Pkg) + ".init", Goal: "true", PC: "true", Unit: u, Props: []string{prop}, Structural: true, StructOK: ok2, Desc: "package-level variable " + name + " is assigned only by the package initialiser (scan of every store and address-taking call argument in the repository)"}
							if !ok2 {
								o.Note = "assigned outside init"
							}
							obls = append(obls, o)
						}
					}
				}
			}
		}
	}
	for _, lm := range e.lemmas {
		if lm.Axiom {
			continue
		}
		has := false
		for _, p := range lm.Props {
			if p == prop {
				has = true
			}
		}
		if !has || (*only != "" && !strings.Contains(lm.Name, *only)) {
			continue
		}
		u := e.VerifyLemma(lm)
		units = append(units, u)
		obls = append(obls, u.Obls...)
		funcs = append(funcs, shortPkg(lm.Pkg)+".lemma/"+lm.Name)
	}
	// structural checks behind `immutable T.f` declarations (always part of the check: proofs lean on them)
	for _, o := range e.immObls {
		o.Props = []string{prop}
		obls = append(obls, o)
	}
	for _, o := range e.chanAliasObligations() {
		o.Props = []string{prop}
		obls = append(obls, o)
	}
	obls = append(obls, e.statelessObligations(prop)...)
	// property-specific structural obligations (guarded-by scans etc.)
	extraObls, extraUnits := e.propertyExtras(prop, *only)
	obls = append(obls, extraObls...)
	units = append(units, extraUnits...)
	for _, u := range extraUnits {
		// guarded-by scan: the function is checked for its guarded accesses only (no functional contract implied)
		if i := strings.Index(u.Name, "::guards/"); i >= 0 {
			funcs = append(funcs, "guarded-accesses-only: "+shortPkg(u.Name[:i])+"."+u.Name[i+9:])
		}
	}

	// obligations of some kinds belong to specific properties only
	{
		var kept []*Obligation
		for _, o := range obls {
			if kindAllowed(prop, o.Kind) || (strings.HasPrefix(o.Kind, "guard.") && e.hasTaggedGuard(prop)) {
				kept = append(kept, o)
			}
		}
		obls = kept
	}
	if len(obls) == 0 {
		fmt.Printf("VACUOUS property=%s: no obligations were generated (no contract is tagged with this property)\n", prop)
		return 2
	}
	ro := RunOpts{Tier: *tier, TimeoutMs: 30000, Workers: 8, DumpDir: *dump, Seed: seed}
	if *tier == "thorough" {
		ro.TimeoutMs = 90000
		ro.Confirm = true
	}
	runObligations(obls, ro)

	kf := loadKnownFindings(filepath.Join(verifDir, "known_findings.json"))
	cr := &checkResult{Property: prop, Tier: *tier, Obls: obls, Units: units, Funcs: funcs, ContractHashes: hashes, Extra: map[string]interface{}{}}
	assume := map[string]bool{}
	for _, u := range units {
		for a := range u.Assumptions {
			assume[a] = true
		}
	}
	assume["termination of code is not verified (partial correctness)"] = true
	assume["interleavings of goroutines are covered only through monitor invariants, guarded-by and blocking-operation obligations (DESIGN.md section 3.6)"] = true
	cr.Assumptions = sortedKeys(assume)
	var kfObls []map[string]interface{}
	nfail := 0
	pdir := filepath.Join(*replayDir, prop)
	_ = os.RemoveAll(pdir)
	for _, ob := range obls {
		st := oblStatus(ob)
		if ob.Result != nil {
			cr.SolverMs += ob.Result.Ms
		}
		if *verbose {
			s, ms := "structural", int64(0)
			if ob.Result != nil {
				s, ms = ob.Result.Solver, ob.Result.Ms
			}
			fmt.Printf("  %-11s %-80s %s %dms %s\n", st, ob.Name, s, ms, ob.Note)
		}
		if st == "discharged" {
			continue
		}
		if ob.WantSat && st == "undecided" {
			// a vacuity/cover query that is not answered is reported but is not a violation of the property
			fmt.Printf("NOTE: %s undecided (%s)\n", ob.Name, ob.Result.Status)
			continue
		}
		if f := kf.match(prop, ob.Name); f != nil {
			ob.known = true
			line := fmt.Sprintf("KNOWN-FINDING: property=%s %s — %s", prop, ob.Name, f.What)
			cr.KnownLines = append(cr.KnownLines, line)
			fmt.Println(line)
			kfObls = append(kfObls, map[string]interface{}{"obligation": ob.Name, "what": f.What, "witness": f.Witness, "result": st})
			continue
		}
		nfail++
		if *diagnose && !ob.Structural && !ob.WantSat {
			for i, cj := range splitConj(ob.Goal) {
				o2 := *ob
				o2.Goal = cj
				r := Solve(ob.Unit.Query(&o2), SolveOpts{TimeoutMs: 5000})
				if r.Status != "unsat" {
					c := cj
					if len(c) > 300 {
						c = c[:300] + "…"
					}
					fmt.Printf("    diagnose: conjunct %d %s: %s\n", i+1, r.Status, c)
				}
			}
		}
		extra := map[string]interface{}{}
		suffix := ""
		replayed := false
		if !ob.WantSat {
			replayed = tryReplay(e, ob, extra)
		}
		if !replayed {
			suffix = " no-failing-input-found"
		}
		if ob.WantSat && st == "failed" {
			extra["vacuous"] = true
		}
		path := writeReplay(pdir, prop, ob, extra)
		line := fmt.Sprintf("VIOLATION property=%s replay=%s obligation=%s (%s) failing-input-replayed: %v", prop, path, ob.Name, st, extra["replay_cmd"])
		// the brief: the line ends with the words no-failing-input-found when there is no replayed input
		if suffix != "" {
			line = fmt.Sprintf("VIOLATION property=%s replay=%s obligation=%s (%s) no-failing-input-found", prop, path, ob.Name, st)
		}
		cr.Violations = append(cr.Violations, line)
		fmt.Println(line)
		if ob.Desc != "" {
			fmt.Printf("    %s  [%s]\n", ob.Desc, ob.Pos)
		}
		if ob.Note != "" {
			fmt.Printf("    note: %s\n", ob.Note)
		}
	}
	if *only == "" {
		bl, bv := runBounded(e, prop, *tier, *replayDir)
		for _, l := range bl {
			fmt.Println(l)
		}
		for _, v := range bv {
			fmt.Println(v)
			cr.Violations = append(cr.Violations, v)
			nfail++
		}
		if bl == nil {
			bl = []string{}
		}
		cr.Extra["bounded"] = bl
	}
	if *only == "" && *tier == "thorough" && *repo == "/repo" && os.Getenv("SF_NO_SELFTEST") == "" {
		sl, c, n := selftestFor(prop)
		for _, l := range sl {
			if strings.HasSuffix(l, "MISSED") || strings.Contains(l, "stale") {
				fmt.Println("NOTE: selftest " + l)
			}
		}
		fmt.Printf("selftest: %d of %d must-fail mutants of %s caught\n", c, n, prop)
		cr.Extra["selftest"] = map[string]interface{}{"caught": c, "total": n, "mutants": sl}
	}
	cr.Wall = time.Since(start).Seconds()
	if !*noEvidence && *only == "" {
		if err := writeEvidence(filepath.Join(verifDir, "evidence", prop+".json"), cr, kfObls, seed); err != nil {
			fmt.Println("cannot write evidence:", err)
			return 2
		}
	}
	nd := 0
	for _, ob := range obls {
		if oblStatus(ob) == "discharged" {
			nd++
		}
	}
	fmt.Printf("property=%s tier=%s functions=%d obligations=%d discharged=%d known=%d failed=%d wall=%.1fs\n", prop, *tier, len(funcs), len(obls)-len(kfObls), nd, len(kfObls), nfail, cr.Wall)
	if nfail > 0 {
		return 1
	}
	return 0
}

func envOr(k, d string) string {
	if v := os.Getenv(k); v != "" {
		return v
	}
	return d
}

func cmdDump(args []string) {
	e, err := LoadEngine("/repo", args[1:], filepath.Join(verifDir, "prelude"))
	if err != nil {
		fmt.Println(err)
		os.Exit(2)
	}
	for fn := range e.allFuncs {
		if e.inRepo(fn) && (fn.Name() == args[0] || relName(fn) == args[0]) {
			fn.WriteTo(os.Stdout)
		}
	}
}

func identsOf(e Expr) []string {
	var out []string
	var walk func(e Expr)
	walk = func(e Expr) {
		switch x := e.(type) {
		case *EIdent:
			out = append(out, x.Name)
		case *EUn:
			walk(x.X)
		case *EBin:
			walk(x.X)
			walk(x.Y)
		case *ECall:
			for _, a := range x.Args {
				walk(a)
			}
		case *ESel:
			walk(x.X)
		case *EIndex:
			walk(x.X)
			walk(x.I)
		case *ESlice:
			walk(x.X)
		case *EQuant:
			walk(x.Body)
		}
	}
	walk(e)
	return out
}

// splitConj splits a term "(and a b c)" (recursively) into its conjuncts.
func splitConj(t string) []string {
	t = strings.TrimSpace(t)
	if !strings.HasPrefix(t, "(and ") {
		return []string{t}
	}
	inner := t[5 : len(t)-1]
	var out []string
	depth, start := 0, 0
	inq := false
	for i := 0; i < len(inner); i++ {
		c := inner[i]
		if c == '"' {
			inq = !inq
		}
		if inq {
			continue
		}
		switch c {
		case '(':
			depth++
		case ')':
			depth--
		case ' ':
			if depth == 0 {
				if i > start {
					out = append(out, splitConj(inner[start:i])...)
				}
				start = i + 1
			}
		}
	}
	if start < len(inner) {
		out = append(out, splitConj(inner[start:])...)
	}
	return out
}

// kindAllowed: blocking-operation obligations (B1/B2) are part of the completion/shutdown/leak properties only,
// guarded-by obligations of the race property only.
func kindAllowed(prop, kind string) bool {
	switch {
	case strings.HasPrefix(kind, "block."):
		return prop == "C04" || prop == "C14" || prop == "C15" || prop == "C17" || prop == "C16"
	case strings.HasPrefix(kind, "guard."):
		return prop == "C20"
	}
	return true
}

func (e *Engine) hasTaggedGuard(prop string) bool {
	for _, g := range e.guarded {
		for _, p := range g.Props {
			if p == prop {
				return true
			}
		}
	}
	return false
}
