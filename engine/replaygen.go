package main

// R1: replay of a solver counterexample against the real code by a generated test.
//
// Scope: top-level functions (no receiver) of the repository whose parameters are integers, booleans, strings
// (SMT-LIB string model only) or byte slices of at most 24 bytes. The generated in-package test (injected by overlay,
// nothing is written to the repository) calls the real function with the arguments of the model and prints its
// scalar results. The counterexample is CONFIRMED when
//   - the obligation is a safety obligation and the call panics, or
//   - the obligation is a postcondition and the real scalar results are exactly the ones the model predicts (the
//     solver has shown the postcondition false for these arguments and results; the run shows that they are what
//     the real code computes).
// Everything else is reported as not confirmed (the VIOLATION line then ends with no-failing-input-found).

import (
	"fmt"
	"go/types"
	"math/big"
	"os"
	"os/exec"
	"path/filepath"
	"regexp"
	"strconv"
	"strings"
)

// modelValue: SMT value text -> (big integer | bool | string)
func parseSMTInt(v string) (*big.Int, bool) {
	v = strings.TrimSpace(v)
	switch {
	case strings.HasPrefix(v, "#x"):
		n, ok := new(big.Int).SetString(v[2:], 16)
		return n, ok
	case strings.HasPrefix(v, "#b"):
		n, ok := new(big.Int).SetString(v[2:], 2)
		return n, ok
	case strings.HasPrefix(v, "(_ bv"):
		f := strings.Fields(strings.Trim(v, "()"))
		if len(f) >= 2 {
			n, ok := new(big.Int).SetString(strings.TrimPrefix(f[1], "bv"), 10)
			return n, ok
		}
	case strings.HasPrefix(v, "(-"):
		n, ok := parseSMTInt(strings.TrimSpace(strings.TrimSuffix(strings.TrimPrefix(v, "(-"), ")")))
		if ok {
			return new(big.Int).Neg(n), true
		}
	default:
		n, ok := new(big.Int).SetString(v, 10)
		return n, ok
	}
	return nil, false
}

var smtEsc = regexp.MustCompile(`\\u\{([0-9a-fA-F]+)\}|\\x([0-9a-fA-F]{2})`)

func parseSMTString(v string) (string, bool) {
	v = strings.TrimSpace(v)
	if len(v) < 2 || v[0] != '"' || v[len(v)-1] != '"' {
		return "", false
	}
	body := strings.ReplaceAll(v[1:len(v)-1], `""`, `"`)
	body = smtEsc.ReplaceAllStringFunc(body, func(m string) string {
		sm := smtEsc.FindStringSubmatch(m)
		h := sm[1]
		if h == "" {
			h = sm[2]
		}
		n, err := strconv.ParseUint(h, 16, 32)
		if err != nil || n > 255 {
			return m
		}
		return string([]byte{byte(n)})
	})
	return body, true
}

// goIntLit: the Go literal of integer type t for the SMT value (two's complement for bit-vectors of signed types).
func goIntLit(v string, t types.Type) (string, bool) {
	n, ok := parseSMTInt(v)
	if !ok {
		return "", false
	}
	w, signed, isInt := intInfo(t)
	if !isInt {
		return "", false
	}
	if strings.HasPrefix(strings.TrimSpace(v), "#") || strings.HasPrefix(strings.TrimSpace(v), "(_ bv") {
		if signed && n.Bit(w-1) == 1 {
			n = new(big.Int).Sub(n, new(big.Int).Lsh(big.NewInt(1), uint(w)))
		}
	}
	return n.String(), true
}

// genReplay tries R1 for one failed obligation. Returns confirmed and fills `extra` with what was done.
func genReplay(e *Engine, ob *Obligation, extra map[string]interface{}) bool {
	if ob.Fn == nil || ob.Result == nil || ob.Fn.Signature.Recv() != nil || ob.Fn.Pkg == nil || ob.Fn.Parent() != nil {
		return false
	}
	model := ob.Result.Model
	src := "solver model"
	if len(model) == 0 {
		model = ob.Result.Candidate
		src = "candidate model of the quantifier-free relaxation"
	}
	if len(model) == 0 {
		return false
	}
	// prefer a counterexample with short byte slices (the solver's first model is arbitrary): ask again with
	// len(p) <= 16 for every byte-slice parameter
	{
		var extraAsserts []string
		for i, n := range ob.ModelNames {
			if strings.HasPrefix(n, "len(") && !strings.HasPrefix(n, "len(result:") && i < len(ob.ModelTerms) {
				srt := ""
				if i < len(ob.ModelSorts) {
					srt = ob.ModelSorts[i]
				}
				if strings.HasPrefix(srt, "(_ BitVec") {
					var w int
					fmt.Sscanf(srt, "(_ BitVec %d)", &w)
					extraAsserts = append(extraAsserts, fmt.Sprintf("(assert (bvule %s (_ bv16 %d)))", ob.ModelTerms[i], w))
				} else {
					extraAsserts = append(extraAsserts, "(assert (<= "+ob.ModelTerms[i]+" 16))")
				}
			}
		}
		if len(extraAsserts) > 0 && !ob.Structural {
			q := ob.Unit.Query(ob) + "\n" + strings.Join(extraAsserts, "\n")
			r := Solve(q, SolveOpts{TimeoutMs: 8000, GetValues: ob.ModelTerms})
			if r.Status == "sat" && len(r.Model) > 0 {
				model = r.Model
				src = "solver model with byte slices limited to 16 bytes"
			} else {
				r2 := Solve(ob.Unit.RelaxedQuery(ob)+"\n"+strings.Join(extraAsserts, "\n"), SolveOpts{TimeoutMs: 8000, GetValues: ob.ModelTerms})
				if r2.Status == "sat" && len(r2.Model) > 0 {
					model = r2.Model
					src = "candidate model of the quantifier-free relaxation with byte slices limited to 16 bytes"
				}
			}
		}
	}
	val := func(name string) (string, bool) {
		for i, n := range ob.ModelNames {
			if n == name && i < len(ob.ModelTerms) {
				v, ok := model[ob.ModelTerms[i]]
				return v, ok
			}
		}
		return "", false
	}
	sig := ob.Fn.Signature
	pkg := ob.Fn.Pkg.Pkg
	imports := map[string]bool{"fmt": true, "testing": true}
	qual := func(p *types.Package) string {
		if p == pkg {
			return ""
		}
		imports[p.Path()] = true
		return p.Name()
	}
	var args []string
	for i := 0; i < sig.Params().Len(); i++ {
		p := sig.Params().At(i)
		t := p.Type()
		ts := types.TypeString(t, qual)
		switch u := t.Underlying().(type) {
		case *types.Basic:
			v, ok := val(p.Name())
			if !ok {
				return false
			}
			switch {
			case u.Info()&types.IsInteger != 0:
				lit, ok := goIntLit(v, t)
				if !ok {
					return false
				}
				args = append(args, ts+"("+lit+")")
			case u.Info()&types.IsBoolean != 0:
				if v != "true" && v != "false" {
					return false
				}
				args = append(args, ts+"("+v+")")
			case u.Info()&types.IsString != 0:
				sv, ok := parseSMTString(v)
				if !ok {
					return false
				}
				args = append(args, ts+"("+strconv.Quote(sv)+")")
			default:
				return false
			}
		case *types.Slice:
			bt, ok := u.Elem().Underlying().(*types.Basic)
			if !ok || bt.Kind() != types.Uint8 {
				return false
			}
			lv, ok := val("len(" + p.Name() + ")")
			if !ok {
				return false
			}
			ln, ok := parseSMTInt(lv)
			if !ok || ln.Sign() < 0 || ln.Cmp(big.NewInt(24)) > 0 {
				return false
			}
			var bs []string
			for k := 0; k < int(ln.Int64()); k++ {
				ev, ok := val(fmt.Sprintf("%s[%d]", p.Name(), k))
				b := big.NewInt(0)
				if ok {
					if n, ok2 := parseSMTInt(ev); ok2 {
						b = n
					}
				}
				bs = append(bs, fmt.Sprint(new(big.Int).And(b, big.NewInt(255))))
			}
			args = append(args, ts+"{"+strings.Join(bs, ", ")+"}")
		default:
			return false
		}
	}
	// results
	nres := sig.Results().Len()
	var lhs, prints []string
	type exp struct {
		idx  int
		want string
	}
	var expects []exp
	refCompared := 0
	onlyRefs := false
	for i := 0; i < nres; i++ {
		lhs = append(lhs, fmt.Sprintf("r%d", i))
		rt := sig.Results().At(i).Type()
		// result names as registered by modelTerms: "result:<name>"
		want, have := "", false
		for j, n := range ob.ModelNames {
			if strings.HasPrefix(n, "result:") && resultIndex(ob, n) == i && j < len(ob.ModelTerms) {
				if v, ok := model[ob.ModelTerms[j]]; ok {
					want, have = v, true
				}
			}
		}
		switch u := rt.Underlying().(type) {
		case *types.Basic:
			switch {
			case u.Info()&types.IsInteger != 0:
				prints = append(prints, fmt.Sprintf("fmt.Printf(\"SFR %d %%d\\n\", r%d)", i, i))
				if have {
					if lit, ok := goIntLit(want, rt); ok {
						expects = append(expects, exp{i, lit})
					}
				}
			case u.Info()&types.IsBoolean != 0:
				prints = append(prints, fmt.Sprintf("fmt.Printf(\"SFR %d %%t\\n\", r%d)", i, i))
				if have && (want == "true" || want == "false") {
					expects = append(expects, exp{i, want})
				}
			case u.Info()&types.IsString != 0:
				prints = append(prints, fmt.Sprintf("fmt.Printf(\"SFR %d %%q\\n\", r%d)", i, i))
				if have {
					if sv, ok := parseSMTString(want); ok {
						expects = append(expects, exp{i, strconv.Quote(sv)})
					}
				}
			default:
				prints = append(prints, fmt.Sprintf("_ = r%d", i))
			}
		case *types.Slice:
			bt, ok := u.Elem().Underlying().(*types.Basic)
			if !ok || bt.Kind() != types.Uint8 {
				prints = append(prints, fmt.Sprintf("_ = r%d", i))
				break
			}
			// a byte-slice result: compared as "len:b0,b1,..." when the model gives its length (<= 24) and bytes
			prints = append(prints, fmt.Sprintf("fmt.Printf(\"SFR %d %%d:%%v\\n\", len(r%d), []byte(r%d))", i, i, i))
			var lenTerm string
			for j, n := range ob.ModelNames {
				if strings.HasPrefix(n, "len(result:") && resultIndex(ob, strings.TrimSuffix(strings.TrimPrefix(n, "len("), ")")) == i && j < len(ob.ModelTerms) {
					lenTerm = model[ob.ModelTerms[j]]
				}
			}
			if ln, ok := parseSMTInt(lenTerm); ok && ln.Sign() >= 0 && ln.Cmp(big.NewInt(24)) <= 0 {
				var bs []string
				complete := true
				for k := 0; k < int(ln.Int64()); k++ {
					found := false
					for j, n := range ob.ModelNames {
						if strings.HasPrefix(n, "result:") && strings.HasSuffix(n, fmt.Sprintf("[%d]", k)) && resultIndex(ob, n) == i && j < len(ob.ModelTerms) {
							if bv, ok := parseSMTInt(model[ob.ModelTerms[j]]); ok {
								bs = append(bs, fmt.Sprint(new(big.Int).And(bv, big.NewInt(255))))
								found = true
							}
						}
					}
					if !found {
						complete = false
					}
				}
				if complete {
					expects = append(expects, exp{i, fmt.Sprintf("%d:[%s]", ln.Int64(), strings.Join(bs, " "))})
				}
			}
		case *types.Pointer, *types.Interface, *types.Map, *types.Chan, *types.Signature:
			// a reference result: compared for nil-ness (an error returned by the real code where the model has none
			// means the model followed an abstracted library call the real code does not follow)
			prints = append(prints, fmt.Sprintf("fmt.Printf(\"SFR %d %%t\\n\", r%d == nil)", i, i))
			if have {
				if n, ok := parseSMTInt(want); ok {
					expects = append(expects, exp{i, fmt.Sprint(n.Sign() == 0)})
					refCompared++
				}
			}
		default:
			prints = append(prints, fmt.Sprintf("_ = r%d", i))
		}
	}
	if refCompared == len(expects) && len(expects) > 0 && ob.Kind == "post" {
		// only nil-ness of references could be compared: too little to call the counterexample confirmed
		onlyRefs = true
	}
	call := ob.Fn.Name() + "(" + strings.Join(args, ", ") + ")"
	var b strings.Builder
	b.WriteString("package " + pkg.Name() + "\n\n// generated by sfverify (R1) for obligation " + ob.Name + " from the " + src + "\n\nimport (\n")
	var imps []string
	for p := range imports {
		imps = append(imps, p)
	}
	sortStrings(imps)
	for _, p := range imps {
		b.WriteString("\t" + strconv.Quote(p) + "\n")
	}
	b.WriteString(")\n\nfunc TestSFReplayGenerated(t *testing.T) {\n\tdefer func() {\n\t\tif r := recover(); r != nil {\n\t\t\tfmt.Printf(\"SFPANIC %v\\n\", r)\n\t\t}\n\t}()\n")
	if nres > 0 {
		b.WriteString("\t" + strings.Join(lhs, ", ") + " := " + call + "\n")
	} else {
		b.WriteString("\t" + call + "\n")
	}
	for _, p := range prints {
		b.WriteString("\t" + p + "\n")
	}
	b.WriteString("\tfmt.Println(\"SFDONE\")\n}\n")
	tf, err := os.CreateTemp("/var/tmp", "sfgen*_test.go")
	if err != nil {
		return false
	}
	defer os.Remove(tf.Name())
	tf.WriteString(b.String())
	tf.Close()
	rel := strings.TrimPrefix(strings.TrimPrefix(pkg.Path(), modulePath), "/")
	c := exec.Command(filepath.Join(verifDir, "tools", "replay_overlay.sh"), e.repoDir, rel, tf.Name(), "TestSFReplayGenerated")
	outB, _ := c.CombinedOutput()
	out := string(outB)
	if len(out) > 4000 {
		out = out[len(out)-4000:]
	}
	extra["generated_test"] = b.String()
	extra["generated_call"] = call
	extra["generated_output"] = out
	extra["replay_cmd"] = "generated test (stored in this file under generated_test): " + call
	if !strings.Contains(out, "SFDONE") && !strings.Contains(out, "SFPANIC") {
		extra["replay_note"] = "the generated test did not run to completion"
		return false
	}
	if strings.HasPrefix(ob.Kind, "safety.") {
		if strings.Contains(out, "SFPANIC") {
			extra["replay_note"] = "the real function panics on the model's arguments"
			return true
		}
		extra["replay_note"] = "the real function does not panic on the model's arguments"
		return false
	}
	if ob.Kind != "post" {
		return false
	}
	// A postcondition counterexample is only as faithful as the model of what the function calls: if the function goes
	// through code that is abstracted (a dependency or callee whose result the model leaves unconstrained), equal outputs
	// do not show that the real run followed the model's path.
	for a := range ob.Unit.Assumptions {
		abstracted := strings.HasPrefix(a, "dependency ") || strings.HasPrefix(a, "call through interface ") || strings.HasPrefix(a, "in-repo callee ") || strings.HasPrefix(a, "dynamic call ") || strings.HasPrefix(a, "assumed contract of ")
		if !abstracted {
			continue
		}
		if strings.Contains(a, "(net.IP).To4") || strings.Contains(a, "math.Ceil") || strings.Contains(a, "math.Floor") {
			continue // functional contracts: the model determines their results
		}
		extra["replay_note"] = "not confirmed: the function goes through abstracted code (" + clipStr(a, 120) + "), so the model's arguments do not determine the real run"
		return false
	}
	if strings.Contains(out, "SFPANIC") {
		extra["replay_note"] = "the real function panics on the model's arguments (the postcondition is not reached)"
		return false
	}
	if len(expects) == 0 || onlyRefs {
		extra["replay_note"] = "no scalar result to compare with the model"
		return false
	}
	got := map[int]string{}
	for _, l := range strings.Split(out, "\n") {
		l = strings.TrimSpace(l)
		if strings.HasPrefix(l, "SFR ") {
			f := strings.SplitN(l, " ", 3)
			if len(f) == 3 {
				k, _ := strconv.Atoi(f[1])
				got[k] = f[2]
			}
		}
	}
	for _, ex := range expects {
		if got[ex.idx] != ex.want {
			extra["replay_note"] = fmt.Sprintf("result %d of the real function is %s, the model predicts %s: the counterexample is not faithful to the real code", ex.idx, got[ex.idx], ex.want)
			return false
		}
	}
	extra["replay_note"] = "the real function returns exactly the results of the counterexample, for which the solver shows the postcondition false"
	return true
}

func resultIndex(ob *Obligation, modelName string) int {
	f := strings.SplitN(modelName, ":", 3)
	if len(f) < 3 {
		return -1
	}
	k, err := strconv.Atoi(f[1])
	if err != nil {
		return -1
	}
	return k
}

func sortStrings(a []string) {
	for i := 1; i < len(a); i++ {
		for j := i; j > 0 && a[j] < a[j-1]; j-- {
			a[j], a[j-1] = a[j-1], a[j]
		}
	}
}
