package main

import (
	"fmt"
	"go/constant"
	"go/token"
	"go/types"
	"math/big"
	"regexp"
	"sort"
	"strings"

	"golang.org/x/tools/go/ssa"
)

// Obligation: one proof obligation = one SMT query.
type Obligation struct {
	Name     string
	Kind     string
	Func     string
	Pos      string
	Props    []string
	LogLen   int    // prefix of the unit's log that is part of the query
	Goal     string // Bool term to prove (under PC)
	PC       string
	Desc     string
	Unit     *Unit
	Result   *SolveResult
	Structural bool   // decided without a solver
	StructOK   bool
	ModelTerms []string // terms to evaluate when sat
	ModelNames []string
	WantSat    bool // vacuity/cover query: expected sat
	Note       string
	known      bool
	Cases      []string
	Vacuous    bool // the obligation's program point is unreachable under the assumptions (contradiction)
	Fn         *ssa.Function // the function under contract this obligation belongs to (top frame), for generated replays
	ModelSorts []string      // SMT sort of each model term
}

// Unit: the verification unit of one function (or one lemma): an SMT log shared by its obligations.
type Unit struct {
	Name     string
	Log      []string
	declared map[string]bool
	specHeap map[string]*heapTemplate // heap parameters of the heap-reading spec functions declared in this unit
	Obls     []*Obligation
	Unsupported []string
	nsym     int
	Assumptions map[string]bool
	quant    int // >0 while translating the body of a quantifier: no definitions or facts may be emitted
	loadCache map[string]string
}

func newUnit(name string) *Unit {
	return &Unit{Name: name, declared: map[string]bool{}, Assumptions: map[string]bool{}}
}

func (u *Unit) emit(line string) { u.Log = append(u.Log, line) }

func (u *Unit) declare(name, sig string) {
	if u.declared[name] {
		return
	}
	u.declared[name] = true
	u.emit(sig)
}

func (u *Unit) declConst(name, sort string) string {
	u.declare(name, "(declare-fun "+name+" () "+sort+")")
	return name
}

func (u *Unit) fresh(hint, sort string) string {
	u.nsym++
	name := qsym(fmt.Sprintf("%s@%d", hint, u.nsym))
	u.emit("(declare-fun " + name + " () " + sort + ")")
	return name
}

// define introduces a name for a term (keeps queries small and readable).
func (u *Unit) define(hint, sort, term string) string {
	if len(term) < 24 && !strings.Contains(term, " ") {
		return term
	}
	if u.quant > 0 {
		return term
	}
	u.nsym++
	name := qsym(fmt.Sprintf("%s@%d", hint, u.nsym))
	u.emit("(define-fun " + name + " () " + sort + " " + term + ")")
	return name
}

func (u *Unit) fact(pc, f string) {
	if f == "true" || u.quant > 0 {
		return
	}
	u.emit("(assert " + tImp(pc, f) + ")")
}

// RelaxedQuery drops every quantified assertion: its models are only candidates (they may violate a
// dropped assumption) and are believed only when they replay on the real code.
func (u *Unit) RelaxedQuery(o *Obligation) string {
	return u.query(o, true)
}

func (u *Unit) Query(o *Obligation) string { return u.query(o, false) }

// ReachQuery: is the program point of the obligation reachable at all (quantifier-free part of the assumptions)?
// An unsat answer means the assumptions on that path contradict each other: the obligation would hold vacuously.
func (u *Unit) ReachQuery(o *Obligation) string {
	var sb strings.Builder
	for _, l := range u.Log[:o.LogLen] {
		if strings.HasPrefix(l, "(assert") && (strings.Contains(l, "(forall ") || strings.Contains(l, "(exists ")) {
			continue
		}
		sb.WriteString(l)
		sb.WriteByte('\n')
	}
	sb.WriteString("(assert " + o.PC + ")\n")
	return sb.String()
}

func (u *Unit) query(o *Obligation, relaxed bool) string {
	var sb strings.Builder
	for _, l := range u.Log[:o.LogLen] {
		if relaxed && strings.HasPrefix(l, "(assert") && (strings.Contains(l, "(forall ") || strings.Contains(l, "(exists ")) {
			continue
		}
		sb.WriteString(l)
		sb.WriteByte('\n')
	}
	if o.WantSat {
		sb.WriteString("(assert " + tAnd(o.PC, o.Goal) + ")\n")
	} else {
		sb.WriteString("(assert (not " + tImp(o.PC, o.Goal) + "))\n")
	}
	return sb.String()
}

// ---------- per-function context ----------

type FuncCtx struct {
	eng     *Engine
	u       *Unit
	fn      *ssa.Function // the function under verification
	con     *Contract
	model   string // "bv" | "int"
	strmode string // "opaque" | "smtlib"
	bytesStr bool
	pkgPath string

	nframe  int
	epochN  int
	strLits map[string]string
	tagIDs  map[string]int
	ordinals map[string]int // per obligation kind ordinal counter
	entry   *State          // state at function entry (for old())
	entryVals map[string]Value // param name -> entry value
	depth   int
	props   []string
	errConsts map[string]int
	callCount map[string]int // callee name -> number of call sites seen (for at call #i)
	clauseHit map[*Clause]int
	afterHit  map[*AtCall]int
	edgePCs   map[edgeKey]string
	compSorts map[string]string
	deferRecs map[deferKey]*deferRec
	inlineStack map[*ssa.Function]bool
	freshRefs map[string]bool
	guardMode bool
	watched   map[string]bool // channels some select of the function receives from (flag watches)
	boxedStructs map[string]StructV // interface terms built from struct values in this activation
	recHeap   *heapTemplate // heap parameters of the spec function whose body is being emitted
	guardAcc  map[*ssa.Function]map[int]string
	autoLoopInv bool
	recSelf   string
	loopSpecs map[string]*LoopSpec
	idxTerms  map[string]map[string]bool
	cellPrefixes map[string]bool
	havocArgTypes []string // pointee type keys of pointer arguments of the call being havocked
	boxed     map[string]string // interface term | dynamic type -> payload term (for unbox(box(x)) = x at generation time)
	entryLocksSymbolic bool
}

type State struct {
	pc     string
	locals map[localKey]Value
	heap   map[string]string // component key -> term
	ghost  map[string]Value
	epoch  int
	dead   bool
	// havocs applied since the last havocAll, for components not yet materialised
	pendingHavoc []havocRec
	volatile     []func(string) bool
	volatileAll  bool
	heldLocks    []string            // "key|ref" of locks acquired on some path to here (checked precisely by SMT)
	private      map[string][]string // type key -> references allocated by this activation and not yet published
	cases        []string // path conditions of the states joined at the most recent merge (exhaustive under pc)
	tmpl         *heapTemplate // non-nil: the body of a heap-reading spec function is being evaluated; component reads become parameters
}

// heapTemplate records the heap components a `spec func heap` body reads; each becomes an implicit parameter.
type heapTemplate struct {
	keys  []string
	sorts []string
}

func (t *heapTemplate) param(key, sort string) string {
	for i, k := range t.keys {
		if k == key {
			return qsym("hp!" + t.keys[i])
		}
	}
	t.keys = append(t.keys, key)
	t.sorts = append(t.sorts, sort)
	return qsym("hp!" + key)
}

func (s *State) clone() *State {
	n := &State{pc: s.pc, epoch: s.epoch, dead: s.dead}
	n.pendingHavoc = append([]havocRec(nil), s.pendingHavoc...)
	n.volatile = append([]func(string) bool(nil), s.volatile...)
	n.volatileAll = s.volatileAll
	n.cases = s.cases
	n.heldLocks = append([]string(nil), s.heldLocks...)
	if s.private != nil {
		n.private = make(map[string][]string, len(s.private))
		for k, v := range s.private {
			n.private[k] = append([]string(nil), v...)
		}
	}
	n.locals = make(map[localKey]Value, len(s.locals))
	for k, v := range s.locals {
		n.locals[k] = v
	}
	n.heap = make(map[string]string, len(s.heap))
	for k, v := range s.heap {
		n.heap[k] = v
	}
	n.ghost = make(map[string]Value, len(s.ghost))
	for k, v := range s.ghost {
		n.ghost[k] = v
	}
	return n
}

type unsupportedErr struct{ msg string }

func (fc *FuncCtx) unsupported(f string, a ...interface{}) {
	panic(unsupportedErr{fmt.Sprintf(f, a...)})
}

// ---------- sorts ----------

func (fc *FuncCtx) intSort() string {
	if fc.model == "bv" {
		return "(_ BitVec 64)"
	}
	return "Int"
}

func intInfo(t types.Type) (w int, signed bool, ok bool) {
	b, isb := t.Underlying().(*types.Basic)
	if !isb {
		return 0, false, false
	}
	switch b.Kind() {
	case types.Int, types.Int64, types.UntypedInt, types.UntypedRune:
		return 64, true, true
	case types.Int32:
		return 32, true, true
	case types.Int16:
		return 16, true, true
	case types.Int8:
		return 8, true, true
	case types.Uint, types.Uint64, types.Uintptr:
		return 64, false, true
	case types.Uint32:
		return 32, false, true
	case types.Uint16:
		return 16, false, true
	case types.Uint8:
		return 8, false, true
	}
	return 0, false, false
}

func (fc *FuncCtx) strSort() string {
	if fc.strmode == "smtlib" {
		return "String"
	}
	fc.u.declare("Str", "(declare-sort Str 0)")
	return "Str"
}

const floatSort = "(_ FloatingPoint 11 53)"

// sortOf gives the SMT sort of a scalar Go type.
func (fc *FuncCtx) sortOf(t types.Type) string {
	if w, _, ok := intInfo(t); ok {
		if fc.model == "bv" {
			return fmt.Sprintf("(_ BitVec %d)", w)
		}
		return "Int"
	}
	switch u := t.Underlying().(type) {
	case *types.Basic:
		switch {
		case u.Info()&types.IsBoolean != 0:
			return "Bool"
		case u.Info()&types.IsString != 0:
			return fc.strSort()
		case u.Kind() == types.Float64 || u.Kind() == types.UntypedFloat:
			return floatSort
		case u.Kind() == types.UnsafePointer || u.Kind() == types.UntypedNil:
			return "Int"
		}
	case *types.Pointer, *types.Map, *types.Chan, *types.Interface, *types.Signature, *types.Array, *types.Tuple:
		return "Int"
	case *types.Struct:
		return "Int" // opaque struct value
	case *types.Slice:
		if fc.bytesStr && isByteSlice(t) {
			return fc.strSort()
		}
	}
	return "Int"
}

func isByteSlice(t types.Type) bool {
	s, ok := t.Underlying().(*types.Slice)
	if !ok {
		return false
	}
	b, ok := s.Elem().Underlying().(*types.Basic)
	return ok && b.Kind() == types.Uint8
}

func isString(t types.Type) bool {
	b, ok := t.Underlying().(*types.Basic)
	return ok && b.Info()&types.IsString != 0
}

func isBool(t types.Type) bool {
	b, ok := t.Underlying().(*types.Basic)
	return ok && b.Info()&types.IsBoolean != 0
}

func isFloat(t types.Type) bool {
	b, ok := t.Underlying().(*types.Basic)
	return ok && b.Info()&types.IsFloat != 0
}

// structIsFlat reports whether values of struct type t are modelled field-wise.
func (fc *FuncCtx) structIsFlat(t types.Type) bool { return flatStruct(t) }

func flatStruct(t types.Type) bool {
	st, ok := t.Underlying().(*types.Struct)
	if !ok {
		return false
	}
	if isOpaqueStruct(t) {
		return false
	}
	return st.NumFields() <= 40
}

// embeddedObject: a field of named flat struct type inside a heap object is modelled as an object of its own
// type at a derived reference (so that &x.f is an ordinary pointer to it).
func embeddedObject(ft types.Type) bool {
	_, named := ft.(*types.Named)
	return named && flatStruct(ft)
}

// derivedRef: the reference of the object embedded as field `field` in the object (of type owner) at ref.
// Derived references are negative (never nil, never equal to an allocated reference) and injective per field.
func (fc *FuncCtx) derivedRef(owner types.Type, field string, ref string) string {
	fn := qsym("sub!" + typeKey(owner) + "." + field)
	inv := qsym("subinv!" + typeKey(owner) + "." + field)
	if !fc.u.declared[fn] {
		fc.u.declared[fn] = true
		fc.u.emit("(declare-fun " + fn + " (Int) Int)")
		fc.u.emit("(declare-fun " + inv + " (Int) Int)")
		fc.u.emit("(assert (forall ((r Int)) (! (and (< (" + fn + " r) 0) (= (" + inv + " (" + fn + " r)) r)) :pattern ((" + fn + " r)))))")
	}
	return "(" + fn + " " + ref + ")"
}

// ---------- integers ----------

func (fc *FuncCtx) intLit(v *big.Int, t types.Type) string {
	w, _, ok := intInfo(t)
	if !ok {
		w = 64
	}
	if fc.model == "bv" {
		return bvLit(v, w)
	}
	return intLitStr(v)
}

func (fc *FuncCtx) intLit64(v int64, t types.Type) string {
	return fc.intLit(big.NewInt(v), t)
}

// idx literal (type int)
func (fc *FuncCtx) ilit(v int64) string { return fc.intLit64(v, types.Typ[types.Int]) }

func (fc *FuncCtx) rangeFact(x string, t types.Type) string {
	if fc.model != "int" {
		return "true"
	}
	w, signed, ok := intInfo(t)
	if !ok {
		return "true"
	}
	if signed {
		lo := new(big.Int).Neg(new(big.Int).Lsh(big.NewInt(1), uint(w-1)))
		hi := new(big.Int).Sub(new(big.Int).Lsh(big.NewInt(1), uint(w-1)), big.NewInt(1))
		return "(and (<= " + intLitStr(lo) + " " + x + ") (<= " + x + " " + intLitStr(hi) + "))"
	}
	hi := new(big.Int).Sub(new(big.Int).Lsh(big.NewInt(1), uint(w)), big.NewInt(1))
	return "(and (<= 0 " + x + ") (<= " + x + " " + intLitStr(hi) + "))"
}

// cmp on ints of Go type t
func (fc *FuncCtx) icmp(op string, x, y string, t types.Type) string {
	if op == "==" {
		return tEq(x, y)
	}
	if op == "!=" {
		return tNot(tEq(x, y))
	}
	if fc.model == "bv" {
		_, signed, _ := intInfo(t)
		m := map[string]string{"<": "bvult", "<=": "bvule", ">": "bvugt", ">=": "bvuge"}
		if signed {
			m = map[string]string{"<": "bvslt", "<=": "bvsle", ">": "bvsgt", ">=": "bvsge"}
		}
		return "(" + m[op] + " " + x + " " + y + ")"
	}
	return "(" + op + " " + x + " " + y + ")"
}

// signed comparison helpers on type int
func (fc *FuncCtx) ile(x, y string) string { return fc.icmp("<=", x, y, types.Typ[types.Int]) }
func (fc *FuncCtx) ilt(x, y string) string { return fc.icmp("<", x, y, types.Typ[types.Int]) }
func (fc *FuncCtx) iadd(x, y string) string {
	if fc.model == "bv" {
		return "(bvadd " + x + " " + y + ")"
	}
	if y == "0" {
		return x
	}
	if x == "0" {
		return y
	}
	return "(+ " + x + " " + y + ")"
}
func (fc *FuncCtx) isub(x, y string) string {
	if fc.model == "bv" {
		return "(bvsub " + x + " " + y + ")"
	}
	if y == "0" {
		return x
	}
	return "(- " + x + " " + y + ")"
}

// ---------- constants ----------

func (fc *FuncCtx) constValue(c *ssa.Const) Value {
	t := c.Type()
	if c.Value == nil {
		return fc.zeroValue(t)
	}
	switch {
	case isBool(t):
		if constant.BoolVal(c.Value) {
			return Scalar{"true", "Bool", t}
		}
		return Scalar{"false", "Bool", t}
	case isString(t):
		return fc.strConst(constant.StringVal(c.Value), t)
	case isFloat(t):
		f, _ := constant.Float64Val(c.Value)
		return Scalar{fc.floatLit(f), floatSort, t}
	}
	if _, _, ok := intInfo(t); ok {
		v, ok2 := constant.Int64Val(constant.ToInt(c.Value))
		var bi *big.Int
		if ok2 {
			bi = big.NewInt(v)
		} else {
			u, _ := constant.Uint64Val(constant.ToInt(c.Value))
			bi = new(big.Int).SetUint64(u)
		}
		return Scalar{fc.intLit(bi, t), fc.sortOf(t), t}
	}
	fc.unsupported("constant of type %s", t)
	return nil
}

func (fc *FuncCtx) floatLit(f float64) string {
	// exact rational via big.Float is overkill: only small integers occur
	if f == float64(int64(f)) {
		return fmt.Sprintf("((_ to_fp 11 53) RNE %d.0)", int64(f))
	}
	fc.unsupported("float constant %v", f)
	return ""
}

func (fc *FuncCtx) strConst(s string, t types.Type) Value {
	if fc.strmode == "smtlib" {
		return Scalar{smtStringLit(s), "String", t}
	}
	if n, ok := fc.strLits[s]; ok {
		return Scalar{n, "Str", t}
	}
	fc.strSort()
	name := qsym(fmt.Sprintf("strlit%d:%s", len(fc.strLits), clip(s, 24)))
	fc.u.emit("(declare-fun " + name + " () Str)")
	for _, o := range sortedVals(fc.strLits) {
		fc.u.emit("(assert (not (= " + name + " " + o + ")))")
	}
	// length of the literal is known
	fc.u.declare("strlen", "(declare-fun strlen (Str) Int)")
	fc.u.emit(fmt.Sprintf("(assert (= (strlen %s) %d))", name, len(s)))
	fc.strLits[s] = name
	return Scalar{name, "Str", t}
}

func clip(s string, n int) string {
	var sb strings.Builder
	for i := 0; i < len(s) && i < n; i++ {
		c := s[i]
		if (c >= 'a' && c <= 'z') || (c >= 'A' && c <= 'Z') || (c >= '0' && c <= '9') || c == '-' || c == '_' || c == '.' {
			sb.WriteByte(c)
		} else {
			sb.WriteByte('_')
		}
	}
	return sb.String()
}

func sortedVals(m map[string]string) []string {
	var out []string
	for _, v := range m {
		out = append(out, v)
	}
	sort.Strings(out)
	return out
}

// zeroValue of a Go type.
func (fc *FuncCtx) zeroValue(t types.Type) Value {
	switch u := t.Underlying().(type) {
	case *types.Slice:
		if fc.bytesStr && isByteSlice(t) {
			return fc.strConst("", t)
		}
		return SliceV{Base: "0", Off: fc.ilit(0), Len: fc.ilit(0), Cap: fc.ilit(0), Elem: u.Elem()}
	case *types.Struct:
		if fc.structIsFlat(t) {
			sv := StructV{Typ: t}
			for i := 0; i < u.NumFields(); i++ {
				sv.Fields = append(sv.Fields, fc.zeroValue(u.Field(i).Type()))
			}
			return sv
		}
		return Scalar{"0", "Int", t}
	case *types.Basic:
		switch {
		case u.Info()&types.IsBoolean != 0:
			return Scalar{"false", "Bool", t}
		case u.Info()&types.IsString != 0:
			return fc.strConst("", t)
		case u.Info()&types.IsFloat != 0:
			return Scalar{"(_ +zero 11 53)", floatSort, t}
		case u.Info()&types.IsInteger != 0:
			return Scalar{fc.intLit64(0, t), fc.sortOf(t), t}
		}
		return Scalar{"0", "Int", t}
	case *types.Tuple:
		tv := TupleV{}
		for i := 0; i < u.Len(); i++ {
			tv.E = append(tv.E, fc.zeroValue(u.At(i).Type()))
		}
		return tv
	}
	return Scalar{"0", "Int", t}
}

// freshValue creates an unconstrained value of type t with its type facts (under pc).
func (fc *FuncCtx) freshValue(st *State, t types.Type, hint string) Value {
	switch u := t.Underlying().(type) {
	case *types.Slice:
		if fc.bytesStr && isByteSlice(t) {
			return Scalar{fc.u.fresh(hint, fc.strSort()), fc.strSort(), t}
		}
		sv := SliceV{Base: fc.u.fresh(hint+".base", "Int"), Off: fc.u.fresh(hint+".off", fc.intSort()), Len: fc.u.fresh(hint+".len", fc.intSort()), Cap: fc.u.fresh(hint+".cap", fc.intSort()), Elem: u.Elem()}
		fc.sliceFacts(st, sv)
		return sv
	case *types.Struct:
		if fc.structIsFlat(t) {
			sv := StructV{Typ: t}
			for i := 0; i < u.NumFields(); i++ {
				sv.Fields = append(sv.Fields, fc.freshValue(st, u.Field(i).Type(), hint+"."+u.Field(i).Name()))
			}
			return sv
		}
	case *types.Tuple:
		tv := TupleV{}
		for i := 0; i < u.Len(); i++ {
			tv.E = append(tv.E, fc.freshValue(st, u.At(i).Type(), fmt.Sprintf("%s.%d", hint, i)))
		}
		return tv
	}
	s := fc.sortOf(t)
	x := fc.u.fresh(hint, s)
	sc := Scalar{x, s, t}
	fc.scalarFacts(st, sc)
	return sc
}

func (fc *FuncCtx) sliceFacts(st *State, sv SliceV) {
	z := fc.ilit(0)
	f := tAnd(fc.ile(z, sv.Off), fc.ile(z, sv.Len), fc.ile(sv.Len, sv.Cap), "(<= 0 "+sv.Base+")", "(<= "+sv.Base+" "+fc.allocTerm(st)+")",
		tImp(tEq(sv.Base, "0"), tAnd(tEq(sv.Len, z), tEq(sv.Cap, z))))
	if fc.model == "int" {
		f = tAnd(f, "(<= (+ "+sv.Off+" "+sv.Cap+") 4611686018427387904)")
	} else {
		// off+cap does not wrap
		f = tAnd(f, fc.ile(sv.Off, "(_ bv4611686018427387904 64)"), fc.ile(sv.Cap, "(_ bv4611686018427387904 64)"))
	}
	fc.u.fact(st.pc, f)
}

func (fc *FuncCtx) scalarFacts(st *State, sc Scalar) {
	if sc.Typ == nil {
		return
	}
	if _, _, ok := intInfo(sc.Typ); ok {
		fc.u.fact(st.pc, fc.rangeFact(sc.T, sc.Typ))
		return
	}
	switch u := sc.Typ.Underlying().(type) {
	case *types.Pointer, *types.Map, *types.Chan:
		fc.u.fact(st.pc, "(and (<= 0 "+sc.T+") (<= "+sc.T+" "+fc.allocTerm(st)+"))")
		if ch, isCh := u.(*types.Chan); isCh {
			// channels of different element types are different objects
			fc.u.declare("chantype", "(declare-fun chantype (Int) Int)")
			fc.u.fact(st.pc, tImp(tNot(tEq(sc.T, "0")), "(= (chantype "+sc.T+") "+fc.typeTag(ch.Elem())+")"))
		}
	}
	if isString(sc.Typ) && fc.strmode == "opaque" {
		fc.u.declare("strlen", "(declare-fun strlen (Str) Int)")
		fc.u.fact(st.pc, "(<= 0 (strlen "+sc.T+"))")
	}
}

func (fc *FuncCtx) allocTerm(st *State) string {
	if v, ok := st.ghost["$alloc"]; ok {
		return v.(Scalar).T
	}
	a := fc.u.declConst("alloc0", "Int")
	fc.u.declare("alloc0.pos", "(assert (<= 0 alloc0))")
	st.ghost["$alloc"] = Scalar{a, "Int", nil}
	return a
}

// newRef allocates a fresh reference.
func (fc *FuncCtx) newRef(st *State, hint string) string {
	a := fc.allocTerm(st)
	r := fc.u.define(hint, "Int", "(+ "+a+" 1)")
	st.ghost["$alloc"] = Scalar{r, "Int", nil}
	return r
}

// bumpAlloc: after a call that may allocate.
func (fc *FuncCtx) bumpAlloc(st *State) {
	a := fc.allocTerm(st)
	n := fc.u.fresh("alloc", "Int")
	fc.u.fact(st.pc, "(<= "+a+" "+n+")")
	st.ghost["$alloc"] = Scalar{n, "Int", nil}
}

// ---------- heap components ----------

var reByte = regexp.MustCompile(`\bbyte\b`)
var reRune = regexp.MustCompile(`\brune\b`)

func typeKey(t types.Type) string {
	s := shortType(t)
	if strings.Contains(s, "byte") {
		s = reByte.ReplaceAllString(s, "uint8")
	}
	if strings.Contains(s, "rune") {
		s = reRune.ReplaceAllString(s, "int32")
	}
	return s
}

// compTerm returns the current term of a heap component, creating its initial symbol lazily.
func (fc *FuncCtx) compTerm(st *State, key, sort string) string {
	fc.compSorts[key] = sort
	if st.tmpl != nil {
		return st.tmpl.param(key, sort)
	}
	if !strings.HasPrefix(key, "L!") && !strings.HasPrefix(key, "GI!") {
		vol := st.volatileAll && !strings.HasPrefix(key, "CH!") && !strings.HasPrefix(key, "ONCE!") && !fc.eng.monitorProtected(key) && !fc.isCellKey(key)
		for _, m := range st.volatile {
			if m(key) {
				vol = true
			}
		}
		if vol {
			// state another goroutine may write at any time: every read sees an arbitrary value
			return fc.u.fresh("volatile!"+clip(key, 30), sort)
		}
	}
	if t, ok := st.heap[key]; ok && !strings.HasPrefix(t, "?") {
		return t
	}
	if fc.eng.immutableKey(key) {
		// a field that never changes after construction has one identity throughout; objects allocated by this
		// activation are written through ordinary stores on top of it (their entries are set before use)
		name := qsym("HI!" + key)
		fc.u.declare(name, "(declare-fun "+name+" () "+sort+")")
		st.heap[key] = name
		return name
	}
	if strings.HasPrefix(key, "L!") && !fc.entryLocksSymbolic {
		// no lock is held by this activation on entry (unless the contract requires held(...))
		st.heap[key] = "((as const (Array Int Bool)) false)"
		return st.heap[key]
	}
	name := qsym(fmt.Sprintf("H%d!%s", st.epoch, key))
	fc.u.declare(name, "(declare-fun "+name+" () "+sort+")")
	for _, h := range st.pendingHavoc {
		if !h.match(key) {
			continue
		}
		nxt := qsym(fmt.Sprintf("H%d!%s", h.epoch, key))
		fc.u.declare(nxt, "(declare-fun "+nxt+" () "+sort+")")
		if key == "CH!closed" {
			// whoever wrote it: a closed channel stays closed
			mk := "mono:" + nxt
			if !fc.u.declared[mk] {
				fc.u.declared[mk] = true
				fc.u.emit("(assert (forall ((r Int)) (! (=> (select " + name + " r) (select " + nxt + " r)) :pattern ((select " + nxt + " r)))))")
			}
		}
		if h.frame != "" && strings.HasPrefix(sort, "(Array Int ") {
			fk := "frame:" + nxt
			if !fc.u.declared[fk] {
				fc.u.declared[fk] = true
				fc.u.emit("(assert (forall ((r Int)) (! (=> (<= r " + h.frame + ") (= (select " + nxt + " r) (select " + name + " r))) :pattern ((select " + nxt + " r)))))")
			}
		}
		name = nxt
	}
	st.heap[key] = name
	return name
}

func (fc *FuncCtx) setComp(st *State, key, sort, term string) {
	st.heap[key] = fc.u.define("h!"+clip(key, 40), sort, term)
}

// leafSortOf: sort used to store a leaf of Go type t.
// loadAt loads a value of type t from component family `prefix` at index idx, path `path`.
func (fc *FuncCtx) noteIdx(key string, idx []string) {
	if len(idx) == 0 || fc.u.quant > 0 {
		return
	}
	if fc.idxTerms == nil {
		fc.idxTerms = map[string]map[string]bool{}
	}
	m := fc.idxTerms[key]
	if m == nil {
		m = map[string]bool{}
		fc.idxTerms[key] = m
	}
	if len(m) < 64 {
		m[idx[0]] = true
	}
}

// idxTermsFor: first-index terms seen so far for the component family of key (same object family).
func (fc *FuncCtx) idxTermsFor(key string) []string {
	fam := key
	if i := strings.Index(key, "."); i >= 0 && strings.HasPrefix(key, "O!") {
		// all fields of one object type are indexed by the same references
		if j := strings.LastIndex(key[:len(key)], "."); j > 0 {
			fam = key[:strings.Index(key[2:], ".")+2]
			_ = j
		}
	}
	seen := map[string]bool{}
	var out []string
	for k, m := range fc.idxTerms {
		if k == key || (strings.HasPrefix(key, "O!") && strings.HasPrefix(k, fam)) || (strings.HasPrefix(key, "E!") && strings.HasPrefix(k, strings.SplitN(key, ".", 2)[0])) {
			for t := range m {
				if !seen[t] {
					seen[t] = true
					out = append(out, t)
				}
			}
		}
	}
	sort.Strings(out)
	return out
}

func (fc *FuncCtx) loadAt(st *State, prefix string, idx, idxSorts []string, path string, t types.Type) Value {
	fc.noteIdx(prefix+path, idx)
	switch u := t.Underlying().(type) {
	case *types.Slice:
		if fc.bytesStr && isByteSlice(t) {
			break
		}
		sv := SliceV{Elem: u.Elem()}
		baseComp := fc.compTerm(st, prefix+path+".base", arraySort(idxSorts, "Int"))
		fc.refAxiom(st, baseComp, len(idxSorts), idxSorts)
		sv.Base = tSel(baseComp, idx...)
		sv.Off = tSel(fc.compTerm(st, prefix+path+".off", arraySort(idxSorts, fc.intSort())), idx...)
		sv.Len = tSel(fc.compTerm(st, prefix+path+".len", arraySort(idxSorts, fc.intSort())), idx...)
		sv.Cap = tSel(fc.compTerm(st, prefix+path+".cap", arraySort(idxSorts, fc.intSort())), idx...)
		if len(idx) > 0 {
			// name the loaded header so that facts are about short terms
			sv.Base = fc.u.define("ld.base", "Int", sv.Base)
			sv.Off = fc.u.define("ld.off", fc.intSort(), sv.Off)
			sv.Len = fc.u.define("ld.len", fc.intSort(), sv.Len)
			sv.Cap = fc.u.define("ld.cap", fc.intSort(), sv.Cap)
		}
		fc.sliceFacts(st, sv)
		return sv
	case *types.Struct:
		if fc.structIsFlat(t) {
			sv := StructV{Typ: t}
			for i := 0; i < u.NumFields(); i++ {
				ft := u.Field(i).Type()
				if pre2, idx2, ok := fc.embedRedirect(prefix, idx, path, t, u.Field(i).Name(), ft); ok {
					sv.Fields = append(sv.Fields, fc.loadAt(st, pre2, idx2, []string{"Int"}, "", ft))
					continue
				}
				sv.Fields = append(sv.Fields, fc.loadAt(st, prefix, idx, idxSorts, path+"."+u.Field(i).Name(), ft))
			}
			return sv
		}
	}
	s := fc.sortOf(t)
	comp := fc.compTerm(st, prefix+path, arraySort(idxSorts, s))
	switch t.Underlying().(type) {
	case *types.Pointer, *types.Map, *types.Chan:
		fc.refAxiom(st, comp, len(idxSorts), idxSorts)
	}
	term := tSel(comp, idx...)
	sc := Scalar{term, s, t}
	if len(idx) > 0 {
		needFacts := false
		if _, _, ok := intInfo(t); ok && fc.model == "int" {
			needFacts = true
		}
		switch t.Underlying().(type) {
		case *types.Pointer, *types.Map, *types.Chan:
			needFacts = true
		}
		if needFacts {
			sc.T = fc.u.define("ld", s, term)
			fc.scalarFacts(st, sc)
		}
	}
	return sc
}

func (fc *FuncCtx) storeAt(st *State, prefix string, idx, idxSorts []string, path string, t types.Type, v Value) {
	upd := func(key, sort, val string) {
		if len(idx) == 0 {
			// (the sort is recorded so that a join with a path that never touched the component can materialise it)
			fc.compSorts[key] = sort
			st.heap[key] = val
			return
		}
		cur := fc.compTerm(st, key, arraySort(idxSorts, sort))
		fc.setComp(st, key, arraySort(idxSorts, sort), tStore(cur, idx, val))
	}
	switch u := t.Underlying().(type) {
	case *types.Slice:
		if fc.bytesStr && isByteSlice(t) {
			break
		}
		sv, ok := v.(SliceV)
		if !ok {
			fc.unsupported("store of non-slice value %T into slice location", v)
		}
		upd(prefix+path+".base", "Int", sv.Base)
		upd(prefix+path+".off", fc.intSort(), sv.Off)
		upd(prefix+path+".len", fc.intSort(), sv.Len)
		upd(prefix+path+".cap", fc.intSort(), sv.Cap)
		return
	case *types.Struct:
		if fc.structIsFlat(t) {
			sv, ok := v.(StructV)
			if !ok {
				fc.unsupported("store of %T into struct location %s", v, t)
			}
			for i := 0; i < u.NumFields(); i++ {
				ft := u.Field(i).Type()
				if pre2, idx2, ok := fc.embedRedirect(prefix, idx, path, t, u.Field(i).Name(), ft); ok {
					fc.storeAt(st, pre2, idx2, []string{"Int"}, "", ft, sv.Fields[i])
					continue
				}
				fc.storeAt(st, prefix, idx, idxSorts, path+"."+u.Field(i).Name(), ft, sv.Fields[i])
			}
			return
		}
	}
	s := fc.sortOf(t)
	upd(prefix+path, s, fc.scalarTerm(st, v, t))
}

// scalarTerm converts a value to a single term of the sort of t (pointers become refs).
func (fc *FuncCtx) scalarTerm(st *State, v Value, t types.Type) string {
	switch x := v.(type) {
	case Scalar:
		return x.T
	case PlaceV:
		if x.Kind == "obj" && len(x.Path) == 0 {
			return x.RefTerm
		}
		if x.Kind == "cell" {
			return x.RefTerm
		}
		fc.unsupported("interior pointer (%s %v) used as a value", x.Kind, x.Path)
	case ClosureV:
		return x.ID
	case UnitV:
		return "0"
	case StructV:
		// opaque boxing of a struct value is not modelled
		return fc.u.fresh("boxed", "Int")
	case SliceV:
		return fc.u.fresh("boxedslice", "Int")
	}
	fc.unsupported("value %T used as scalar", v)
	return ""
}

// ---------- places ----------

func (fc *FuncCtx) objPlace(ref string, t types.Type) PlaceV {
	// pointer to an object of type t
	if _, ok := t.Underlying().(*types.Array); ok {
		return PlaceV{Kind: "obj", Prefix: "A!", Idx: []string{ref}, IdxSorts: []string{"Int"}, Root: t, Typ: t, RefTerm: ref}
	}
	if _, isSt := t.Underlying().(*types.Struct); !isSt || !flatStruct(t) {
		// a cell holding a non-struct value (an escaping or captured variable): only code that is handed its
		// address can write it
		fc.cellPrefixes["O!"+typeKey(t)] = true
	}
	return PlaceV{Kind: "obj", Prefix: "O!" + typeKey(t), Idx: []string{ref}, IdxSorts: []string{"Int"}, Root: t, Typ: t, RefTerm: ref}
}

func (fc *FuncCtx) isCellKey(key string) bool {
	for p := range fc.cellPrefixes {
		if key == p || strings.HasPrefix(key, p+".") {
			return true
		}
	}
	return false
}

func pathStr(p []string) string {
	if len(p) == 0 {
		return ""
	}
	return "." + strings.Join(p, ".")
}

func (fc *FuncCtx) loadPlace(st *State, p PlaceV) Value {
	switch p.Kind {
	case "local":
		v, ok := st.locals[p.Local]
		if !ok {
			v = fc.zeroValue(p.Root)
		}
		return fc.getPath(v, p.Root, p.Path)
	case "obj", "elem", "cell":
		if _, isArr := p.Typ.Underlying().(*types.Array); isArr && p.Prefix == "A!" {
			// whole-array load of an array object with modelled elements: an opaque value determined by the elements
			at := p.Typ.Underlying().(*types.Array)
			srt := fc.sortOf(at.Elem())
			key := "E!" + typeKey(at.Elem())
			full := arraySort([]string{"Int", fc.intSort()}, srt)
			cur := fc.compTerm(st, key, full)
			fn := qsym(fmt.Sprintf("arrpack!%d!%s", at.Len(), typeKey(at.Elem())))
			fc.u.declare(fn, "(declare-fun "+fn+" ((Array "+fc.intSort()+" "+srt+")) Int)")
			fc.u.Assumptions["an array value read as a whole is modelled as an uninterpreted function of its element row (equal rows give equal values; the converse is not used)"] = true
			return Scalar{fc.u.define("arrval", "Int", "("+fn+" (select "+cur+" "+p.RefTerm+"))"), "Int", p.Typ}
		}
		return fc.loadAt(st, p.Prefix, p.Idx, p.IdxSorts, pathStr(p.Path), p.Typ)
	case "global":
		return fc.loadGlobal(st, p)
	}
	fc.unsupported("load from place kind %s", p.Kind)
	return nil
}

func (fc *FuncCtx) storePlace(st *State, p PlaceV, v Value) {
	switch p.Kind {
	case "local":
		cur, ok := st.locals[p.Local]
		if !ok {
			cur = fc.zeroValue(p.Root)
		}
		st.locals[p.Local] = fc.setPath(cur, p.Root, p.Path, v)
		return
	case "obj", "elem", "cell":
		if at, isArr := p.Typ.Underlying().(*types.Array); isArr && p.Prefix == "A!" {
			// storing an array value as a whole: the element row becomes some row whose packed value is v
			sc, ok := v.(Scalar)
			if !ok {
				fc.unsupported("whole-array store of %T", v)
			}
			srt := fc.sortOf(at.Elem())
			key := "E!" + typeKey(at.Elem())
			full := arraySort([]string{"Int", fc.intSort()}, srt)
			cur := fc.compTerm(st, key, full)
			row := fc.u.fresh("arrrow", "(Array "+fc.intSort()+" "+srt+")")
			fn := qsym(fmt.Sprintf("arrpack!%d!%s", at.Len(), typeKey(at.Elem())))
			fc.u.declare(fn, "(declare-fun "+fn+" ((Array "+fc.intSort()+" "+srt+")) Int)")
			fc.u.fact(st.pc, "(= ("+fn+" "+row+") "+sc.T+")")
			fc.setComp(st, key, full, "(store "+cur+" "+p.RefTerm+" "+row+")")
			return
		}
		fc.storeAt(st, p.Prefix, p.Idx, p.IdxSorts, pathStr(p.Path), p.Typ, v)
		return
	case "global":
		if fc.eng.globalImmutable(p.Global) && !fc.isPkgInit() {
			fc.unsupported("store to global %s classified immutable", p.Global.Name())
		}
		fc.storeAt(st, "G!"+globalKey(p.Global), nil, nil, pathStr(p.Path), p.Typ, v)
		return
	}
	fc.unsupported("store to place kind %s", p.Kind)
}

func globalKey(g *ssa.Global) string {
	pk := ""
	if g.Pkg != nil {
		parts := strings.Split(g.Pkg.Pkg.Path(), "/")
		pk = parts[len(parts)-1]
	}
	return pk + "." + g.Name()
}

func (fc *FuncCtx) loadGlobal(st *State, p PlaceV) Value {
	g := p.Global
	t := p.Typ
	// error-typed immutable globals: distinct non-nil constants
	if len(p.Path) == 0 && fc.eng.globalImmutable(g) && !fc.isPkgInit() {
		if types.Identical(t, types.Universe.Lookup("error").Type()) {
			key := globalKey(g)
			id, ok := fc.errConsts[key]
			if !ok {
				id = len(fc.errConsts) + 1
				fc.errConsts[key] = id
			}
			fc.u.Assumptions["error variables (io.EOF, io.ErrUnexpectedEOF, package Err* variables never assigned outside their initialiser) are distinct non-nil values"] = true
			return Scalar{fmt.Sprintf("(- %d)", id), "Int", t}
		}
		// immutable: same symbol in every epoch
		return fc.loadImmutableGlobal(st, g, t)
	}
	return fc.loadAt(st, "G!"+globalKey(g), nil, nil, pathStr(p.Path), t)
}

func (fc *FuncCtx) loadImmutableGlobal(st *State, g *ssa.Global, t types.Type) Value {
	key := "GI!" + globalKey(g)
	saved := st.epoch
	st.epoch = 0
	// use a dedicated heap map entry that is never havocked
	var v Value
	func() {
		defer func() { st.epoch = saved }()
		tmp := &State{pc: "true", heap: map[string]string{}, ghost: st.ghost, locals: st.locals, epoch: 0}
		v = fc.loadAt(tmp, key, nil, nil, "", t)
	}()
	// known constant facts about immutable globals (e.g. len(paddingBuffer) == 1024)
	fc.eng.immutableGlobalFacts(fc, g, v)
	return v
}

// getPath projects a field path out of a struct value.
func (fc *FuncCtx) getPath(v Value, root types.Type, path []string) Value {
	for _, name := range path {
		sv, ok := v.(StructV)
		if !ok {
			fc.unsupported("field %s of non-struct value", name)
		}
		st := sv.Typ.Underlying().(*types.Struct)
		found := false
		for i := 0; i < st.NumFields(); i++ {
			if st.Field(i).Name() == name {
				v = sv.Fields[i]
				found = true
				break
			}
		}
		if !found {
			fc.unsupported("no field %s", name)
		}
	}
	return v
}

func (fc *FuncCtx) setPath(v Value, root types.Type, path []string, nv Value) Value {
	if len(path) == 0 {
		return nv
	}
	sv, ok := v.(StructV)
	if !ok {
		fc.unsupported("field store into non-struct value %T", v)
	}
	st := sv.Typ.Underlying().(*types.Struct)
	out := StructV{Typ: sv.Typ, Fields: append([]Value(nil), sv.Fields...)}
	for i := 0; i < st.NumFields(); i++ {
		if st.Field(i).Name() == path[0] {
			out.Fields[i] = fc.setPath(sv.Fields[i], st.Field(i).Type(), path[1:], nv)
			return out
		}
	}
	fc.unsupported("no field %s", path[0])
	return nil
}

// elemPlace: place of element i (absolute index term) of the backing store `base` with element type et.
func (fc *FuncCtx) elemPlace(base, absIdx string, et types.Type) PlaceV {
	return PlaceV{Kind: "elem", Prefix: "E!" + typeKey(et), Idx: []string{base, absIdx}, IdxSorts: []string{"Int", fc.intSort()}, Root: et, Typ: et}
}

// ---------- havoc ----------

func (fc *FuncCtx) newEpoch() int {
	fc.epochN++
	return fc.epochN
}

// havocAll forgets every mutable heap component (used for calls without a frame).
func (fc *FuncCtx) havocAll(st *State) {
	// channel ghost state (CH!*) is kept: code without a contract is assumed not to operate on channels of this
	// repository behind the caller's back (in-repo callees contribute their channel operations through their
	// inferred write sets, see applyModSet); lock state is ours.
	fc.u.Assumptions["calls without a contract do not send on, receive from or close channels of this repository other than through in-repo code whose channel operations are accounted for"] = true
	for _, k := range []string{"CH!cap", "CH!sends", "CH!recvs", "CH!closes"} {
		fc.compTerm(st, k, "(Array Int Int)")
	}
	fc.compTerm(st, "CH!closed", "(Array Int Bool)")
	st.epoch = fc.newEpoch()
	st.pendingHavoc = nil
	var keepCells []string
	for k := range st.heap {
		if strings.HasPrefix(k, "L!") || strings.HasPrefix(k, "CH!") || strings.HasPrefix(k, "ONCE!") {
			continue
		}
		if fc.eng.immutableKey(k) {
			continue
		}
		if fc.isCellKey(k) && !fc.cellPassed(k) {
			// variables of this function (escaping / captured cells) whose address was not handed to the callee
			keepCells = append(keepCells, k)
			continue
		}
		delete(st.heap, k)
	}
	if len(keepCells) > 0 {
		fc.u.Assumptions["code without a contract cannot write a local (escaping or captured) variable unless it is handed a pointer of that variable's type"] = true
	}
	// cells not yet materialised keep their identity as well: materialise lazily under the old epoch is impossible,
	// so unmaterialised cells simply get the new epoch (they carry no information yet)
}

func (fc *FuncCtx) cellPassed(key string) bool {
	for _, t := range fc.havocArgTypes {
		p := "O!" + t
		if key == p || strings.HasPrefix(key, p+".") {
			return true
		}
	}
	return false
}

// havocKeys forgets the components selected by match. If frame != "" (a term for the allocation
// counter before the operation) the operation is known to write only objects it allocated itself:
// entries of references <= frame keep their values.
func (fc *FuncCtx) havocKeys(st *State, match func(key string) bool, frame string) {
	ep := fc.newEpoch()
	for k, cur := range st.heap {
		if !match(k) || strings.HasPrefix(k, "L!") || fc.eng.immutableKey(k) {
			continue
		}
		srt := fc.compSorts[k]
		if strings.HasPrefix(cur, "?") || srt == "" {
			delete(st.heap, k)
			continue
		}
		nxt := qsym(fmt.Sprintf("H%d!%s", ep, k))
		fc.u.declare(nxt, "(declare-fun "+nxt+" () "+srt+")")
		if frame != "" && strings.HasPrefix(srt, "(Array Int ") {
			fc.u.emit("(assert (forall ((r Int)) (! (=> (<= r " + frame + ") (= (select " + nxt + " r) (select " + cur + " r))) :pattern ((select " + nxt + " r)))))")
		}
		if k == "CH!closed" {
			// whoever wrote it: a closed channel stays closed
			fc.u.emit("(assert (forall ((r Int)) (! (=> (select " + cur + " r) (select " + nxt + " r)) :pattern ((select " + nxt + " r)))))")
		}
		st.heap[k] = nxt
	}
	st.pendingHavoc = append(st.pendingHavoc, havocRec{ep, match, frame})
}

type havocRec struct {
	epoch int
	match func(string) bool
	frame string
}

var _ = token.NoPos

func (fc *FuncCtx) isPkgInit() bool {
	return fc.fn != nil && fc.fn.Name() == "init" && fc.fn.Synthetic != ""
}

// embedRedirect: when loading/storing the whole value of an object of struct type `owner` (object components,
// top level), its embedded named-struct fields live at derived references.
func (fc *FuncCtx) embedRedirect(prefix string, idx []string, path string, owner types.Type, field string, ft types.Type) (string, []string, bool) {
	if path != "" || len(idx) != 1 || !strings.HasPrefix(prefix, "O!") || !embeddedObject(ft) {
		return "", nil, false
	}
	if _, named := owner.(*types.Named); !named {
		return "", nil, false
	}
	return "O!" + typeKey(ft), []string{fc.derivedRef(owner, field, idx[0])}, true
}

// refAxiom: every reference stored in a heap snapshot was allocated before the snapshot was taken.
// Emitted once per declared (not defined) component symbol, guarded by the path on which it is materialised.
func (fc *FuncCtx) refAxiom(st *State, comp string, nidx int, idxSorts []string) {
	if nidx != 1 {
		// (a two-index axiom over element rows interacts badly with the array theory: use allocated(x) in contracts)
		return
	}
	if !(strings.HasPrefix(comp, "H") || strings.HasPrefix(comp, "|H")) {
		return
	}
	k := "refax:" + comp
	if fc.u.declared[k] {
		return
	}
	fc.u.declared[k] = true
	a := fc.allocTerm(st)
	var body string
	if nidx == 1 {
		body = "(forall ((r Int)) (! (and (<= 0 (select " + comp + " r)) (<= (select " + comp + " r) " + a + ")) :pattern ((select " + comp + " r))))"
	} else {
		body = "(forall ((r Int) (i " + idxSorts[1] + ")) (! (and (<= 0 (select (select " + comp + " r) i)) (<= (select (select " + comp + " r) i) " + a + ")) :pattern ((select (select " + comp + " r) i))))"
	}
	fc.u.emit("(assert " + tImp(st.pc, body) + ")")
}

// notePrivate records a reference allocated by this activation for an object of type t.
func (fc *FuncCtx) notePrivate(st *State, t types.Type, ref string) {
	if st.private == nil {
		st.private = map[string][]string{}
	}
	k := typeKey(t)
	st.private[k] = append(st.private[k], ref)
}

// publish: a pointer to an object of type t leaves the activation's private data (stored into the heap, passed to
// a call, sent, captured): from now on every object of that type allocated so far counts as published (type-based,
// conservative).
func (fc *FuncCtx) publish(st *State, t types.Type) {
	if st.private == nil {
		return
	}
	switch u := t.Underlying().(type) {
	case *types.Pointer:
		delete(st.private, typeKey(u.Elem()))
	case *types.Interface:
		// an interface value may hold a pointer to anything
		st.private = nil
	case *types.Slice:
		fc.publish(st, u.Elem())
	case *types.Map:
		fc.publish(st, u.Key())
		fc.publish(st, u.Elem())
	case *types.Chan:
		// the channel itself is not a tracked object; values sent later are published at the send
	case *types.Basic:
	case *types.Signature, *types.Struct, *types.Array:
		st.private = nil
	}
}

// elemIdx: absolute index off+i of a slice element. In the integer model it is written with an uninterpreted
// function (defined by an axiom) so that quantified facts about elements can be matched syntactically.
func (fc *FuncCtx) elemIdx(off, i string) string {
	if fc.model != "int" {
		return fc.iadd(off, i)
	}
	if off == "0" {
		return i
	}
	if !fc.u.declared["elemidx"] {
		fc.u.declared["elemidx"] = true
		fc.u.emit("(declare-fun elemidx (Int Int) Int)")
		fc.u.emit("(assert (forall ((o Int) (i Int)) (! (= (elemidx o i) (+ o i)) :pattern ((elemidx o i)))))")
	}
	return "(elemidx " + off + " " + i + ")"
}
