package main

import (
	"fmt"
	"go/ast"
	"go/token"
	"go/types"
	"os"
	"path/filepath"
	"sort"
	"strings"

	"golang.org/x/tools/go/packages"
	"golang.org/x/tools/go/ssa"
	"golang.org/x/tools/go/ssa/ssautil"
)

const modulePath = "git.torproject.org/pluggable-transports/snowflake.git/v2"

type Engine struct {
	fset           *token.FileSet
	prog           *ssa.Program
	pkgs           map[string]*packages.Package
	spkgs          map[string]*ssa.Package
	files          map[string]*ContractFile // by package path ("" = prelude)
	contracts      map[string]*Contract     // pkgpath + "::" + key  (func); "extern::" + key; "iface::" + key
	specs          map[string]*SpecFunc     // pkgpath::name, and "::name" for prelude
	ghosts         []*GhostDecl
	invariants     []*InvariantDecl
	guarded        []*GuardedDecl
	guardNotes     []string // accessors demoted because their callers are not all visible
	extObserved []types.Type
	chanDecls   []*ChanDecl
	guardAssume    []string // assumptions of the guarded-by check
	stateless      []statelessDecl
	guardProp      string // property the guarded-by scan currently runs for (default C20)
	guardIfaceSites map[*ssa.MakeInterface][]string // interface hand-overs to library calls that need a foreign lock held
	escIface       map[*ssa.Function][]*ssa.MakeInterface
	escWrapper     map[*ssa.Function][]*ssa.Function
	escSoft        map[*ssa.Function]bool
	lemmas         []*LemmaDecl
	globals        []*GlobalFact
	preds          map[string]*SpecFunc
	immutableKeys  map[string]string // component key -> declaration text
	immutableDecls []immDecl
	immObls        []*Obligation
	namedTypes     []types.Type
	modsets        map[*ssa.Function]*ModSet
	modInProgress  map[*ssa.Function]bool
	immGlobals     map[*ssa.Global]int // 0 unknown, 1 immutable, 2 mutable
	allFuncs       map[*ssa.Function]bool
	repoDir        string
	LoadErrors     []string
	protectedKeys  map[string]bool
}

func LoadEngine(repoDir string, patterns []string, preludeDir string) (*Engine, error) {
	e := &Engine{repoDir: repoDir, pkgs: map[string]*packages.Package{}, spkgs: map[string]*ssa.Package{}, files: map[string]*ContractFile{}, contracts: map[string]*Contract{}, specs: map[string]*SpecFunc{}, modsets: map[*ssa.Function]*ModSet{}, modInProgress: map[*ssa.Function]bool{}, immGlobals: map[*ssa.Global]int{}, protectedKeys: map[string]bool{}}
	cfg := &packages.Config{
		Mode:       packages.NeedName | packages.NeedFiles | packages.NeedSyntax | packages.NeedTypes | packages.NeedTypesInfo | packages.NeedDeps | packages.NeedImports | packages.NeedTypesSizes,
		Dir:        repoDir,
		BuildFlags: []string{"-mod=readonly", "-tags=verif"},
		Env:        append(os.Environ(), "GOFLAGS=", "GOPROXY=off", "GOSUMDB=off", "GOTOOLCHAIN=local"),
	}
	pkgs, err := packages.Load(cfg, patterns...)
	if err != nil {
		return nil, err
	}
	for _, p := range pkgs {
		for _, er := range p.Errors {
			e.LoadErrors = append(e.LoadErrors, er.Error())
		}
	}
	if len(e.LoadErrors) > 0 {
		return e, fmt.Errorf("BUILD-ERROR: %s", strings.Join(e.LoadErrors, "; "))
	}
	if len(pkgs) == 0 {
		return e, fmt.Errorf("BUILD-ERROR: no packages loaded")
	}
	e.fset = pkgs[0].Fset
	prog, spkgs := ssautil.Packages(pkgs, ssa.NaiveForm|ssa.GlobalDebug)
	e.prog = prog
	for i, p := range pkgs {
		e.pkgs[p.PkgPath] = p
		if spkgs[i] != nil {
			spkgs[i].Build()
			e.spkgs[p.PkgPath] = spkgs[i]
		}
	}
	// contract files
	for _, p := range pkgs {
		for fi, f := range p.Syntax {
			_ = fi
			name := e.fset.Position(f.Pos()).Filename
			if !strings.HasSuffix(name, "_verif.go") {
				continue
			}
			lines := contractLinesFromAST(e.fset, f)
			cf := ParseContractLines(p.PkgPath, name, lines)
			e.addFile(cf)
		}
	}
	// prelude
	specs, _ := filepath.Glob(filepath.Join(preludeDir, "*.spec"))
	sort.Strings(specs)
	for _, sp := range specs {
		data, err := os.ReadFile(sp)
		if err != nil {
			return e, err
		}
		var lines []rawLine
		for i, l := range strings.Split(string(data), "\n") {
			if strings.HasPrefix(strings.TrimSpace(l), "#") {
				continue
			}
			lines = append(lines, rawLine{l, fmt.Sprintf("%s:%d", filepath.Base(sp), i+1)})
		}
		cf := ParseContractLines("", sp, lines)
		e.addFile(cf)
	}
	e.allFuncs = ssautil.AllFunctions(prog)
	e.computeProtected()
	e.immObls = e.computeImmutable()
	return e, nil
}

func contractLinesFromAST(fset *token.FileSet, f *ast.File) []rawLine {
	var lines []rawLine
	for _, cg := range f.Comments {
		for _, c := range cg.List {
			t := c.Text
			var body string
			if strings.HasPrefix(t, "//@") {
				body = t[3:]
			} else if strings.HasPrefix(t, "// @") {
				body = t[4:]
			} else {
				continue
			}
			pos := fset.Position(c.Pos())
			lines = append(lines, rawLine{body, fmt.Sprintf("%s:%d", strings.TrimPrefix(pos.Filename, "/repo/"), pos.Line)})
		}
	}
	return lines
}

func (e *Engine) addFile(cf *ContractFile) {
	if old, ok := e.files[cf.Pkg]; ok && cf.Pkg != "" {
		_ = old
	}
	e.files[cf.Pkg+"|"+cf.Path] = cf
	for _, c := range cf.Contracts {
		if c.Model == "" {
			c.Model = cf.DefaultModel
		}
		if c.Strings == "" {
			c.Strings = cf.DefaultStrings
		}
		switch c.Kind {
		case "func":
			e.contracts[cf.Pkg+"::"+c.Key] = c
		case "extern":
			e.contracts["extern::"+c.Key] = c
		case "interface":
			e.contracts["iface::"+c.Key] = c
		}
	}
	for _, s := range cf.SpecFuncs {
		e.specs[cf.Pkg+"::"+s.Name] = s
	}
	if e.preds == nil {
		e.preds = map[string]*SpecFunc{}
	}
	for _, s := range cf.Preds {
		e.preds[cf.Pkg+"::"+s.Name] = s
	}
	e.ghosts = append(e.ghosts, cf.Ghosts...)
	e.invariants = append(e.invariants, cf.Invariants...)
	e.guarded = append(e.guarded, cf.Guarded...)
	for _, props := range cf.Stateless {
		e.stateless = append(e.stateless, statelessDecl{cf.Pkg, props})
	}
	e.chanDecls = append(e.chanDecls, cf.ChanDecls...)
	for _, l := range cf.Lemmas {
		if l.Model == "" {
			l.Model = cf.DefaultModel
		}
		if l.Strings == "" {
			l.Strings = cf.DefaultStrings
		}
	}
	for _, im := range cf.Immutable {
		e.immutableDecls = append(e.immutableDecls, immDecl{cf.Pkg, im})
	}
	e.lemmas = append(e.lemmas, cf.Lemmas...)
	e.globals = append(e.globals, cf.Globals...)
}

func (e *Engine) ContractErrors() []string {
	var out []string
	for _, cf := range e.files {
		out = append(out, cf.Errors...)
	}
	sort.Strings(out)
	return out
}

func (e *Engine) inRepo(fn *ssa.Function) bool {
	p := fn.Pkg
	if p == nil && fn.Parent() != nil {
		p = fn.Parent().Pkg
	}
	if p == nil {
		// method wrappers etc.
		if fn.Object() != nil && fn.Object().Pkg() != nil {
			return strings.HasPrefix(fn.Object().Pkg().Path(), modulePath)
		}
		return false
	}
	return strings.HasPrefix(p.Pkg.Path(), modulePath)
}

func fnPkgPath(fn *ssa.Function) string {
	p := fn.Pkg
	for f := fn; p == nil && f.Parent() != nil; f = f.Parent() {
		p = f.Parent().Pkg
	}
	if p == nil {
		if fn.Object() != nil && fn.Object().Pkg() != nil {
			return fn.Object().Pkg().Path()
		}
		return ""
	}
	return p.Pkg.Path()
}

// relName: the key under which a function's contract is written in its package's contract file.
func relName(fn *ssa.Function) string {
	if fn.Pkg != nil {
		return fn.RelString(fn.Pkg.Pkg)
	}
	if fn.Parent() != nil {
		// closure: Parent$N relative
		root := fn
		for root.Parent() != nil {
			root = root.Parent()
		}
		if root.Pkg != nil {
			return fn.RelString(root.Pkg.Pkg)
		}
	}
	return fn.String()
}

func (e *Engine) contractFor(fn *ssa.Function) *Contract {
	if e.inRepo(fn) {
		if c, ok := e.contracts[fnPkgPath(fn)+"::"+relName(fn)]; ok {
			return c
		}
		return nil
	}
	if c, ok := e.contracts["extern::"+fn.String()]; ok {
		return c
	}
	return nil
}

// contractForCall: like contractFor, but an extern contract may be specialised to the dynamic type of its
// first interface argument: `extern container/heap.Pop[*clientMapInner](h heap.Interface) ...`.
func (e *Engine) contractForCall(fn *ssa.Function, c *ssa.CallCommon) *Contract {
	if !e.inRepo(fn) && len(c.Args) > 0 {
		if mi, ok := c.Args[0].(*ssa.MakeInterface); ok {
			tn := shortTypeName(mi.X.Type())
			if _, isPtr := mi.X.Type().(*types.Pointer); isPtr {
				tn = "*" + tn
			}
			for _, key := range []string{fn.String() + "[" + tn + "]", fn.String() + "[" + strings.TrimPrefix(tn[strings.LastIndex(tn, ".")+1:], "*") + "]"} {
				if con, ok := e.contracts["extern::"+key]; ok {
					return con
				}
			}
			// "*pkg.T" -> "*T"
			if i := strings.LastIndex(tn, "."); i >= 0 {
				star := ""
				if strings.HasPrefix(tn, "*") {
					star = "*"
				}
				if con, ok := e.contracts["extern::"+fn.String()+"["+star+tn[i+1:]+"]"]; ok {
					return con
				}
			}
		}
	}
	return e.contractFor(fn)
}

func (e *Engine) ifaceContract(c *ssa.CallCommon) *Contract {
	name := shortIfaceName(c.Value.Type()) + "." + c.Method.Name()
	if con, ok := e.contracts["iface::"+name]; ok {
		return con
	}
	// embedded interfaces: io.ReadWriter.Read -> io.Reader.Read ... match by method's defining interface
	if recv := c.Method.Type().(*types.Signature).Recv(); recv != nil {
		if n, ok := recv.Type().(*types.Named); ok {
			nm := shortIfaceName(n) + "." + c.Method.Name()
			if con, ok := e.contracts["iface::"+nm]; ok {
				return con
			}
		}
	}
	// in-repo interface names may be written unqualified
	if n, ok := c.Value.Type().(*types.Named); ok && n.Obj().Pkg() != nil {
		if con, ok := e.contracts["iface::"+n.Obj().Name()+"."+c.Method.Name()]; ok {
			return con
		}
	}
	return nil
}

func (e *Engine) specFunc(pkg, name string) *SpecFunc {
	if s, ok := e.specs[pkg+"::"+name]; ok {
		return s
	}
	if s, ok := e.specs["::"+name]; ok {
		return s
	}
	// a spec function of another package, if the name is unique in the repository
	var found *SpecFunc
	for _, s := range e.specs {
		if s.Name == name {
			if found != nil {
				return nil
			}
			found = s
		}
	}
	return found
}

func (e *Engine) predFor(pkg, name string) *SpecFunc {
	if s, ok := e.preds[pkg+"::"+name]; ok {
		return s
	}
	if s, ok := e.preds["::"+name]; ok {
		return s
	}
	return nil
}

func (e *Engine) ghostVar(pkg, name string) *GhostDecl {
	for _, g := range e.ghosts {
		if !g.IsField && g.Name == name && (g.Pkg == pkg || g.Pkg == "") {
			return g
		}
	}
	return nil
}

// ghostField finds a ghost field by name whose owner matches the static type of base (when known).
func (e *Engine) ghostField(pkg, name string, base Value) *GhostDecl {
	var cands []*GhostDecl
	for _, g := range e.ghosts {
		if g.IsField && g.Name == name {
			cands = append(cands, g)
		}
	}
	if len(cands) == 0 {
		return nil
	}
	var bt types.Type
	switch b := base.(type) {
	case SliceV:
		// ghost fields of slice-typed values are keyed by the backing array; owner is matched by name only
		for _, g := range cands {
			if strings.HasPrefix(g.Owner, "[]") || g.Owner == "net.IP" {
				return g
			}
		}
		return nil
	case StructV:
		// a struct value has only its real fields
		return nil
	case Scalar:
		bt = b.Typ
	case PlaceV:
		bt = types.NewPointer(b.Typ)
	}
	if bt != nil {
		ts := shortTypeName(bt)
		for _, g := range cands {
			if g.Owner == ts || strings.HasSuffix(ts, "."+g.Owner) || strings.HasSuffix(g.Owner, "."+ts) {
				return g
			}
		}
		// a real field of that name takes precedence
		if pt, ok := bt.Underlying().(*types.Pointer); ok {
			if st, ok := pt.Elem().Underlying().(*types.Struct); ok {
				for i := 0; i < st.NumFields(); i++ {
					if st.Field(i).Name() == name {
						return nil
					}
				}
			}
		}
	}
	if len(cands) == 1 {
		return cands[0]
	}
	return nil
}

func shortTypeName(t types.Type) string {
	if p, ok := t.(*types.Pointer); ok {
		t = p.Elem()
	}
	if n, ok := t.(*types.Named); ok {
		if n.Obj().Pkg() == nil {
			return n.Obj().Name()
		}
		return n.Obj().Pkg().Name() + "." + n.Obj().Name()
	}
	return t.String()
}

func (e *Engine) typesPkg(path string) *types.Package {
	if p, ok := e.pkgs[path]; ok {
		return p.Types
	}
	return nil
}

// lookupType resolves "T", "pkg.T", "[]T", "*T" in the scope of package pkgPath.
func (e *Engine) lookupType(pkgPath, txt string) types.Type {
	txt = strings.TrimSpace(txt)
	switch {
	case strings.HasPrefix(txt, "[]"):
		if t := e.lookupType(pkgPath, txt[2:]); t != nil {
			return types.NewSlice(t)
		}
		return nil
	case strings.HasPrefix(txt, "*"):
		if t := e.lookupType(pkgPath, txt[1:]); t != nil {
			return types.NewPointer(t)
		}
		return nil
	}
	if obj := types.Universe.Lookup(txt); obj != nil {
		if tn, ok := obj.(*types.TypeName); ok {
			return tn.Type()
		}
	}
	if dot := strings.LastIndex(txt, "."); dot > 0 {
		if obj := e.lookupQualified(pkgPath, txt[:dot], txt[dot+1:]); obj != nil {
			if tn, ok := obj.(*types.TypeName); ok {
				return tn.Type()
			}
		}
		return nil
	}
	if tp := e.typesPkg(pkgPath); tp != nil {
		if obj := tp.Scope().Lookup(txt); obj != nil {
			if tn, ok := obj.(*types.TypeName); ok {
				return tn.Type()
			}
		}
	}
	return nil
}

func (e *Engine) lookupObject(pkgPath, name string) types.Object {
	if tp := e.typesPkg(pkgPath); tp != nil {
		if obj := tp.Scope().Lookup(name); obj != nil {
			return obj
		}
	}
	return nil
}

// lookupQualified resolves pkgname.Name among the imports of pkgPath (or any loaded package with that name / path).
func (e *Engine) lookupQualified(pkgPath, pkgName, name string) types.Object {
	var find func(tp *types.Package, seen map[*types.Package]bool) types.Object
	find = func(tp *types.Package, seen map[*types.Package]bool) types.Object {
		for _, imp := range tp.Imports() {
			if imp.Name() == pkgName || imp.Path() == pkgName {
				if obj := imp.Scope().Lookup(name); obj != nil {
					return obj
				}
			}
		}
		return nil
	}
	if tp := e.typesPkg(pkgPath); tp != nil {
		if obj := find(tp, nil); obj != nil {
			return obj
		}
	}
	// any package in the program
	for _, p := range e.prog.AllPackages() {
		if p.Pkg.Name() == pkgName || p.Pkg.Path() == pkgName {
			if obj := p.Pkg.Scope().Lookup(name); obj != nil {
				return obj
			}
		}
	}
	return nil
}

func (e *Engine) globalFor(v *types.Var) *ssa.Global {
	if v.Pkg() == nil {
		return nil
	}
	sp := e.prog.Package(v.Pkg())
	if sp == nil {
		return nil
	}
	if g, ok := sp.Members[v.Name()].(*ssa.Global); ok {
		return g
	}
	return nil
}

// globalImmutable: a package-level variable never stored to outside its package initialiser.
func (e *Engine) globalImmutable(g *ssa.Global) bool {
	if s := e.immGlobals[g]; s != 0 {
		return s == 1
	}
	res := 1
	if g.Pkg == nil {
		e.immGlobals[g] = 2
		return false
	}
	if !strings.HasPrefix(g.Pkg.Pkg.Path(), modulePath) {
		// dependency globals: error sentinels and the like are treated as immutable (listed assumption)
		e.immGlobals[g] = 1
		return true
	}
	for fn := range e.allFuncs {
		if fn.Pkg != g.Pkg && (fn.Parent() == nil || fn.Parent().Pkg != g.Pkg) {
			// unexported globals cannot be written elsewhere; exported ones could, scan everything in repo
			if !e.inRepo(fn) {
				continue
			}
		}
		if fn.Name() == "init" && fn.Pkg == g.Pkg {
			continue
		}
		for _, b := range fn.Blocks {
			for _, ins := range b.Instrs {
				switch x := ins.(type) {
				case *ssa.Store:
					if rootGlobal(x.Addr) == g {
						res = 2
					}
				case *ssa.Call:
					// address passed to a call
					for _, a := range x.Call.Args {
						if rootGlobal(a) == g {
							if _, isPtr := a.Type().Underlying().(*types.Pointer); isPtr {
								res = 2
							}
						}
					}
				case *ssa.Slice:
					// slicing an array variable yields a writable view of it
					if rootGlobal(x.X) == g {
						res = 2
					}
				}
			}
		}
	}
	e.immGlobals[g] = res
	return res == 1
}

func rootGlobal(v ssa.Value) *ssa.Global {
	for {
		switch x := v.(type) {
		case *ssa.Global:
			return x
		case *ssa.FieldAddr:
			v = x.X
		case *ssa.IndexAddr:
			v = x.X
		default:
			return nil
		}
	}
}

// immutableGlobalFacts: constant facts derived from the initialiser of an immutable global
// (only `make([]T, N)` with constant N: len == cap == N, non-nil).
func (e *Engine) immutableGlobalFacts(fc *FuncCtx, g *ssa.Global, v Value) {
	sv, ok := v.(SliceV)
	if !ok || g.Pkg == nil {
		return
	}
	init := g.Pkg.Func("init")
	if init == nil {
		return
	}
	for _, b := range init.Blocks {
		for _, ins := range b.Instrs {
			st, ok := ins.(*ssa.Store)
			if !ok || st.Addr != g {
				continue
			}
			ln, haveLen := int64(0), false
			if mk, ok := st.Val.(*ssa.MakeSlice); ok {
				ln, haveLen = fc.constIntVal(mk.Len)
			}
			if sl, ok := st.Val.(*ssa.Slice); ok && sl.Low == nil {
				if al, ok := sl.X.(*ssa.Alloc); ok {
					if at, ok := al.Type().(*types.Pointer).Elem().Underlying().(*types.Array); ok {
						if sl.High == nil {
							ln, haveLen = at.Len(), true
						} else {
							ln, haveLen = fc.constIntVal(sl.High)
						}
					}
				}
			}
			if haveLen {
				{
					key := "immfact:" + g.Name()
					if !fc.u.declared[key] {
						fc.u.declared[key] = true
						fc.u.emit("(assert (and (= " + sv.Len + " " + fc.ilit(ln) + ") (= " + sv.Cap + " " + fc.ilit(ln) + ") (= " + sv.Off + " " + fc.ilit(0) + ") (> " + sv.Base + " 0)))")
					}
				}
			}
		}
	}
}

// ---------- mod sets ----------

type ModSet struct {
	all    bool
	keys   map[string]bool
	fresh  map[string]bool // components written only in objects allocated by the operation itself
	allocs bool
	ghost  bool
	locals map[*ssa.Alloc]bool
	scope  map[*ssa.BasicBlock]bool // blocks of the operation (nil = whole function)
}

// freshRooted: the address/value is rooted in an object allocated by an instruction inside scope.
func freshRooted(v ssa.Value, scope map[*ssa.BasicBlock]bool, depth int) bool {
	if depth > 6 {
		return false
	}
	inScope := func(ins ssa.Instruction) bool {
		return scope == nil || scope[ins.Block()]
	}
	switch x := v.(type) {
	case *ssa.FieldAddr:
		return freshRooted(x.X, scope, depth+1)
	case *ssa.IndexAddr:
		return freshRooted(x.X, scope, depth+1)
	case *ssa.Slice:
		return freshRooted(x.X, scope, depth+1)
	case *ssa.Alloc:
		et := x.Type().(*types.Pointer).Elem()
		_, isArr := et.Underlying().(*types.Array)
		return (x.Heap || isArr) && inScope(x)
	case *ssa.MakeSlice:
		return inScope(x)
	case *ssa.MakeMap:
		return inScope(x)
	case *ssa.UnOp:
		if x.Op != token.MUL {
			return false
		}
		a, ok := x.X.(*ssa.Alloc)
		if !ok || a.Heap {
			return false
		}
		if _, isArr := a.Type().(*types.Pointer).Elem().Underlying().(*types.Array); isArr {
			return false
		}
		if a.Referrers() == nil {
			return false
		}
		n := 0
		for _, r := range *a.Referrers() {
			if s, ok := r.(*ssa.Store); ok && s.Addr == a {
				n++
				if !freshRooted(s.Val, scope, depth+1) {
					return false
				}
			}
		}
		return n > 0
	}
	return false
}

func (m *ModSet) matcher() func(string) bool {
	keys := make([]string, 0, len(m.keys))
	for k := range m.keys {
		keys = append(keys, k)
	}
	return func(key string) bool {
		for _, p := range keys {
			if key == p || strings.HasPrefix(key, p+".") {
				return true
			}
			if p == "CH" && strings.HasPrefix(key, "CH!") {
				return key != "CH!cap" // a channel's capacity never changes
			}
			if p == "ONCE" && strings.HasPrefix(key, "ONCE!") {
				return true
			}
		}
		return false
	}
}

// freshOnly: the components that are written only in self-allocated objects.
func (m *ModSet) freshOnly() *ModSet {
	out := &ModSet{keys: map[string]bool{}}
	covered := m.matcher()
	for k := range m.fresh {
		if !m.keys[k] && !covered(k) {
			out.keys[k] = true
		}
	}
	return out
}

func (m *ModSet) addFresh(k string) {
	if m.fresh == nil {
		m.fresh = map[string]bool{}
	}
	m.fresh[k] = true
}

func (m *ModSet) merge(o *ModSet) {
	if o.all {
		m.all = true
	}
	for k := range o.keys {
		m.keys[k] = true
	}
	for k := range o.fresh {
		m.addFresh(k)
	}
	m.allocs = m.allocs || o.allocs
	m.ghost = m.ghost || o.ghost
}

func (e *Engine) funcModSet(fn *ssa.Function) *ModSet {
	if ms, ok := e.modsets[fn]; ok {
		return ms
	}
	if e.modInProgress[fn] {
		return &ModSet{all: true, keys: map[string]bool{}}
	}
	e.modInProgress[fn] = true
	ms := &ModSet{keys: map[string]bool{}, locals: map[*ssa.Alloc]bool{}}
	for _, b := range fn.Blocks {
		for _, ins := range b.Instrs {
			was := ms.all
			e.instrMod(ms, fn, ins)
			if !was && ms.all && os.Getenv("SFDEBUG") == "mod" {
				fmt.Fprintf(os.Stderr, "modset of %s becomes ALL at %s: %s\n", fn.String(), e.prog.Fset.Position(ins.Pos()), ins.String())
			}
		}
	}
	e.modInProgress[fn] = false
	e.modsets[fn] = ms
	return ms
}

func (e *Engine) loopModSet(fn *ssa.Function, li *loopInfo) *ModSet {
	ms := &ModSet{keys: map[string]bool{}, locals: map[*ssa.Alloc]bool{}, scope: li.body}
	for b := range li.body {
		for _, ins := range b.Instrs {
			e.instrMod(ms, fn, ins)
		}
	}
	return ms
}

func storeKey(addr ssa.Value) (key string, local *ssa.Alloc, ok bool) {
	var path []string
	v := addr
	for {
		switch x := v.(type) {
		case *ssa.FieldAddr:
			ot := x.X.Type().Underlying().(*types.Pointer).Elem()
			st := ot.Underlying().(*types.Struct)
			ft := st.Field(x.Field).Type()
			if _, named := ot.(*types.Named); named && embeddedObject(ft) {
				// the embedded object has components of its own type
				return "O!" + typeKey(ft) + pathStr(path), nil, true
			}
			path = append([]string{st.Field(x.Field).Name()}, path...)
			v = x.X
			continue
		case *ssa.IndexAddr:
			var et types.Type
			switch u := x.X.Type().Underlying().(type) {
			case *types.Slice:
				et = u.Elem()
			case *types.Pointer:
				et = u.Elem().Underlying().(*types.Array).Elem()
			}
			return "E!" + typeKey(et) + pathStr(path), nil, true
		case *ssa.Alloc:
			et := x.Type().(*types.Pointer).Elem()
			_, isArr := et.Underlying().(*types.Array)
			if isArr && !x.Heap && !arrayElementsUsed(x) {
				isArr = false
			}
			if !x.Heap && !isArr {
				return "", x, true
			}
			return "O!" + typeKey(et) + pathStr(path), nil, true
		case *ssa.Global:
			return "G!" + globalKey(x) + pathStr(path), nil, true
		}
		break
	}
	pt, isPtr := v.Type().Underlying().(*types.Pointer)
	if !isPtr {
		return "", nil, false
	}
	return "O!" + typeKey(pt.Elem()) + pathStr(path), nil, true
}

func (e *Engine) instrMod(ms *ModSet, fn *ssa.Function, ins ssa.Instruction) {
	switch x := ins.(type) {
	case *ssa.Store:
		k, loc, ok := storeKey(x.Addr)
		if !ok {
			ms.all = true
			return
		}
		if loc != nil {
			if ms.locals != nil {
				ms.locals[loc] = true
			}
			return
		}
		if freshRooted(x.Addr, ms.scope, 0) {
			ms.addFresh(k)
		} else {
			ms.keys[k] = true
		}
	case *ssa.MapUpdate:
		mt := x.Map.Type().Underlying().(*types.Map)
		k := typeKey(mt.Key()) + "!" + typeKey(mt.Elem())
		ms.keys["MH!"+k] = true
		ms.keys["MV!"+k] = true
		ms.keys["ML!"+k] = true
	case *ssa.Alloc:
		if x.Heap {
			ms.allocs = true
			et := x.Type().(*types.Pointer).Elem()
			ms.addFresh("O!" + typeKey(et))
		} else if _, isArr := x.Type().(*types.Pointer).Elem().Underlying().(*types.Array); isArr {
			ms.allocs = true
			ms.addFresh("E!" + typeKey(x.Type().(*types.Pointer).Elem().Underlying().(*types.Array).Elem()))
		}
	case *ssa.MakeSlice:
		ms.allocs = true
		ms.addFresh("E!" + typeKey(x.Type().Underlying().(*types.Slice).Elem()))
	case *ssa.MakeMap:
		ms.allocs = true
		mt := x.Type().Underlying().(*types.Map)
		k := typeKey(mt.Key()) + "!" + typeKey(mt.Elem())
		ms.addFresh("MH!" + k)
		ms.addFresh("ML!" + k)
	case *ssa.MakeChan:
		ms.allocs = true
		ms.addFresh("CH!cap")
		ms.addFresh("CH!closed")
	case *ssa.MakeClosure, *ssa.MakeInterface:
		ms.allocs = true
	case *ssa.Send:
		ms.keys["CH!sends"] = true
	case *ssa.Select:
		for _, s := range x.States {
			if s.Dir == types.SendOnly {
				ms.keys["CH!sends"] = true
			} else {
				ms.keys["CH!recvs"] = true
			}
		}
	case *ssa.UnOp:
		if x.Op == token.ARROW {
			ms.keys["CH!recvs"] = true
		}
	case *ssa.Convert:
		if isString(x.X.Type()) && isByteSlice(x.Type()) {
			ms.allocs = true
			ms.addFresh("E!uint8")
		}
	case *ssa.Call:
		e.callMod(ms, fn, &x.Call)
	case *ssa.Defer:
		e.callMod(ms, fn, &x.Call)
	case *ssa.Go:
		e.callMod(ms, fn, &x.Call)
	}
}

func (e *Engine) callMod(ms *ModSet, caller *ssa.Function, c *ssa.CallCommon) {
	ms.ghost = true
	if c.IsInvoke() {
		con := e.ifaceContract(c)
		if con != nil {
			e.contractMod(ms, con, nil, fnPkgPath(caller))
			for _, p := range con.Assigns {
				if p == "reachable" {
					e.externalMod(ms, c)
				}
			}
			return
		}
		_, full := calleeNames(c)
		if pureMethod(c.Method.Name(), full) {
			return
		}
		e.externalMod(ms, c)
		return
	}
	switch v := c.Value.(type) {
	case *ssa.Builtin:
		switch v.Name() {
		case "append", "copy":
			if sl, ok := c.Args[0].Type().Underlying().(*types.Slice); ok {
				ms.keys["E!"+typeKey(sl.Elem())] = true
				ms.allocs = true
			}
		case "delete":
			mt := c.Args[0].Type().Underlying().(*types.Map)
			k := typeKey(mt.Key()) + "!" + typeKey(mt.Elem())
			ms.keys["MH!"+k] = true
			ms.keys["ML!"+k] = true
		case "close":
			ms.keys["CH!closed"] = true
			ms.keys["CH!closes"] = true
		}
		return
	case *ssa.Function:
		if strings.HasPrefix(v.String(), "sync/atomic.") && len(c.Args) > 0 {
			if strings.HasPrefix(v.Name(), "Add") || strings.HasPrefix(v.Name(), "Store") || strings.HasPrefix(v.Name(), "Swap") || strings.HasPrefix(v.Name(), "CompareAndSwap") {
				if k, loc, ok := storeKey(c.Args[0]); ok {
					if loc != nil {
						if ms.locals != nil {
							ms.locals[loc] = true
						}
					} else {
						ms.keys[k] = true
					}
				} else {
					ms.all = true
				}
			}
			return
		}
		if !e.inRepo(v) {
			if con := e.contractForCall(v, c); con != nil {
				e.contractMod(ms, con, v, fnPkgPath(caller))
				for _, p := range con.Assigns {
					if p == "reachable" {
						e.externalMod(ms, c)
					}
				}
				return
			}
		}
		e.fnMod(ms, v, c)
		return
	case *ssa.MakeClosure:
		e.fnMod(ms, v.Fn.(*ssa.Function))
		return
	}
	ms.all = true
}

func (e *Engine) fnMod(ms *ModSet, fn *ssa.Function, ccs ...*ssa.CallCommon) {
	var cc *ssa.CallCommon
	if len(ccs) > 0 {
		cc = ccs[0]
	}
	full := fn.String()
	if fn.Synthetic == "package initializer" && fn.Pkg != nil {
		// a package initialiser writes the package-level variables of its own package (and of the packages it
		// initialises in turn, which do not depend on the caller's package)
		parts := strings.Split(fn.Pkg.Pkg.Path(), "/")
		ms.keys["G!"+parts[len(parts)-1]] = true
		ms.allocs = true
		return
	}
	switch full {
	case "(*sync.Mutex).Lock", "(*sync.RWMutex).Lock", "(*sync.RWMutex).RLock", "(*sync.Mutex).Unlock", "(*sync.RWMutex).Unlock", "(*sync.RWMutex).RUnlock":
		// taking a lock lets other threads' updates of the protected components become visible
		for k := range e.protectedKeys {
			ms.keys[k] = true
		}
		ms.keys["L"] = true
		return
	case "math.Ceil", "math.Floor":
		return
	case "(*sync.Once).Do":
		ms.keys["ONCE"] = true
		// the function value passed in is run: its own effects when it is a function of this repository
		if cc != nil && len(cc.Args) == 2 {
			if f := e.repoFuncValue(cc.Args[1]); f != nil {
				ms.merge(e.funcModSet(f))
				return
			}
		}
		ms.all = true
		return
	}
	if strings.HasPrefix(full, "sync/atomic.") {
		// atomic ops write through their pointer argument; handled at the call by the intrinsic. Conservative: uint64/int64 cells
		ms.all = ms.all || false
		ms.keys["$atomic"] = true
		return
	}
	if con := e.contractFor(fn); con != nil && (con.Pure || con.HasAssigns) {
		e.contractMod(ms, con, fn)
		return
	}
	if e.inRepo(fn) && len(fn.Blocks) > 0 {
		ms.merge(e.funcModSet(fn))
		return
	}
	if con := e.contractFor(fn); con != nil {
		e.contractMod(ms, con, fn)
		return
	}
	if e.pureDependency(fn) {
		ms.allocs = true
		return
	}
	if cc != nil {
		e.externalMod(ms, cc)
		return
	}
	ms.all = true
}

// externalMod adds the type-directed write set of an external call to ms.
func (e *Engine) externalMod(ms *ModSet, c *ssa.CallCommon) {
	types_, elems, maps_, ghostOwners, anything := e.externalWriteSet(c)
	ms.allocs = true
	if anything {
		ms.all = true
		return
	}
	for _, a := range c.Args {
		if fn := e.repoFuncValue(a); fn != nil {
			ms.merge(e.funcModSet(fn))
		}
	}
	for t := range types_ {
		ms.keys["O!"+t] = true
	}
	for t := range elems {
		ms.keys["E!"+t] = true
	}
	for t := range maps_ {
		ms.keys["MH!"+t] = true
		ms.keys["MV!"+t] = true
		ms.keys["ML!"+t] = true
	}
	for o := range ghostOwners {
		ms.keys["X!"+o] = true
	}
}

func (e *Engine) contractMod(ms *ModSet, con *Contract, fn *ssa.Function, callerPkg ...string) {
	pk := con.Pkg
	if pk == "" && len(callerPkg) > 0 {
		pk = callerPkg[0]
	}
	if con.Pure {
		return
	}
	ms.allocs = true
	if con.HasAssigns {
		for _, p := range con.Assigns {
			if p == "all" {
				ms.all = true
				continue
			}
			if p == "reachable" {
				// whatever is reachable (by type) from the call's arguments; needs the call: handled by the caller
				continue
			}
			if p == "nothing" {
				// allocates, writes no existing object
				continue
			}
			if strings.Contains(p, "!") {
				ms.keys[p] = true
			} else if strings.HasPrefix(p, "cellof(") || strings.HasPrefix(p, "rowof(") {
				// the component family is not known without types: be conservative for the write set
				ms.all = true
			} else if strings.HasPrefix(p, "elemsof(") {
				// element type unknown here: conservatively all byte elements (the only use)
				ms.keys["E!uint8"] = true
			} else if strings.HasPrefix(p, "elems(") {
				if tt := e.lookupType(pk, p[6:len(p)-1]); tt != nil {
					ms.keys["E!"+typeKey(tt)] = true
				} else {
					ms.keys["E!"+canonTypeName(p[6:len(p)-1])] = true
				}
			} else if strings.HasPrefix(p, "ghost ") {
				ms.keys["X!"+strings.TrimSpace(p[6:])] = true
			} else if dot := strings.Index(p, "."); dot > 0 {
				if t := e.lookupType(pk, p[:dot]); t != nil {
					ms.keys["O!"+typeKey(t)+p[dot:]] = true
				} else {
					ms.all = true
				}
			} else if t := e.lookupType(pk, p); t != nil {
				ms.keys["O!"+typeKey(t)] = true
			} else {
				ms.all = true
			}
		}
		return
	}
	ms.all = true
}

var purePkgs = map[string]bool{"fmt": true, "errors": true, "strings": true, "bytes": true, "strconv": true, "unicode": true, "unicode/utf8": true, "math": true, "time": true, "net": true, "net/url": true, "encoding/hex": true, "encoding/base64": true, "encoding/base32": true, "crypto/sha256": true, "crypto/sha1": true, "path": true, "regexp": true, "log": true, "os": true, "sort": true, "math/rand": true, "crypto/rand": true, "net/http": true, "github.com/prometheus/client_golang/prometheus": true, "context": true, "hash/crc64": true, "crypto/hmac": true, "encoding/binary": true, "golang.org/x/net/idna": true, "io/ioutil": false}

// pureDependency: a dependency function assumed not to write the modelled state of this repository
// (it may allocate and return fresh data). Listed as an assumption wherever used.
func (e *Engine) pureDependency(fn *ssa.Function) bool {
	p := fnPkgPath(fn)
	return purePkgs[p]
}

// inlinable: small in-repo function without loops, goroutines, selects or defers.
func (e *Engine) inlinable(fn *ssa.Function) bool {
	if len(fn.Blocks) == 0 {
		return false
	}
	n := 0
	for _, b := range fn.Blocks {
		for _, s := range b.Succs {
			if s.Dominates(b) {
				return false
			}
		}
		for _, ins := range b.Instrs {
			switch ins.(type) {
			case *ssa.Go, *ssa.Select, *ssa.Defer:
				return false
			case *ssa.DebugRef:
				continue
			}
			n++
		}
	}
	return n <= 120
}

type immDecl struct{ pkg, text string }

// computeImmutable resolves `immutable T.f` declarations and checks them structurally: every store to T.f in the
// repository must go to an object allocated in the same function (i.e. while it is being constructed).
func (e *Engine) computeImmutable() []*Obligation {
	e.immutableKeys = map[string]string{}
	var obls []*Obligation
	for _, d := range e.immutableDecls {
		if strings.HasPrefix(d.text, "ghost ") {
			// a ghost constant of its owner (e.g. the maximum a Tongue reports): no code can assign it, and no ghost
			// update in a contract may (not checked mechanically: the contract files are the trusted side)
			e.immutableKeys["X!"+strings.TrimSpace(d.text[6:])] = "ghost"
			continue
		}
		dot := strings.LastIndex(d.text, ".")
		if dot < 0 {
			continue
		}
		t := e.lookupType(d.pkg, d.text[:dot])
		if t == nil {
			obls = append(obls, &Obligation{Name: shortPkg(d.pkg) + "/immutable." + d.text, Kind: "immutable", Goal: "false", PC: "true", Structural: true, StructOK: false, Note: "unknown type", Unit: newUnit("immutable")})
			continue
		}
		field := d.text[dot+1:]
		key := "O!" + typeKey(t) + "." + field
		ok := true
		note := ""
		for fn := range e.allFuncs {
			if !e.inRepo(fn) {
				continue
			}
			for _, b := range fn.Blocks {
				for _, ins := range b.Instrs {
					st, isStore := ins.(*ssa.Store)
					if !isStore {
						continue
					}
					fa, isFA := st.Addr.(*ssa.FieldAddr)
					if !isFA {
						continue
					}
					ot := fa.X.Type().Underlying().(*types.Pointer).Elem()
					if !types.Identical(ot, t) {
						continue
					}
					if ot.Underlying().(*types.Struct).Field(fa.Field).Name() != field {
						continue
					}
					if !freshRooted(fa.X, nil, 0) {
						ok = false
						note = "assigned in " + fn.String() + " on an object that is not under construction"
					} else if pub := publishedBefore(fa.X, st); pub != nil {
						ok = false
						note = "assigned in " + fn.String() + " (" + e.posString(st.Pos()) + ") after the object has already been handed on at " + e.posString(pub.Pos())
					}
				}
			}
		}
		if ok {
			e.immutableKeys[key] = d.text
		}
		obls = append(obls, &Obligation{Name: shortPkg(d.pkg) + "/immutable." + d.text, Kind: "immutable", Func: shortPkg(d.pkg), Goal: "true", PC: "true", Structural: true, StructOK: ok, Note: note, Desc: "field " + d.text + " is assigned only while its object is being constructed (scan of every store in the repository)", Unit: newUnit("immutable")})
	}
	return obls
}

func (e *Engine) immutableKey(key string) bool {
	for k := range e.immutableKeys {
		if key == k || strings.HasPrefix(key, k+".") {
			return true
		}
	}
	return false
}

func (e *Engine) computeProtected() {
	for _, inv := range e.invariants {
		if inv.Guard == "" {
			continue
		}
		for _, k := range e.protectKeys(inv) {
			e.protectedKeys[k] = true
		}
	}
}

// protectKeys: component prefixes protected by a monitor invariant.
func (e *Engine) protectKeys(inv *InvariantDecl) []string {
	var out []string
	t := e.lookupType(inv.Pkg, inv.Type)
	if t == nil {
		return nil
	}
	for _, p := range inv.Protects {
		p = strings.TrimSpace(p)
		switch {
		case strings.HasPrefix(p, "monotone "):
			// handled at Lock (see monitorEnter)
		case strings.Contains(p, "!"):
			out = append(out, p)
		case strings.HasPrefix(p, "elems(") && strings.HasSuffix(p, ")"):
			tn := p[6 : len(p)-1]
			if et := e.lookupType(inv.Pkg, tn); et != nil {
				out = append(out, "E!"+typeKey(et))
			}
		case strings.HasPrefix(p, "map(") && strings.HasSuffix(p, ")"):
			parts := strings.Split(p[4:len(p)-1], ",")
			if len(parts) == 2 {
				kt, vt := e.lookupType(inv.Pkg, strings.TrimSpace(parts[0])), e.lookupType(inv.Pkg, strings.TrimSpace(parts[1]))
				if kt != nil && vt != nil {
					k := typeKey(kt) + "!" + typeKey(vt)
					out = append(out, "MH!"+k, "MV!"+k, "ML!"+k)
				}
			}
		case strings.HasPrefix(p, "ghost "):
			out = append(out, "X!"+strings.TrimSpace(p[6:]))
		case strings.Contains(p, "."):
			dot := strings.Index(p, ".")
			if ot := e.lookupType(inv.Pkg, p[:dot]); ot != nil {
				out = append(out, "O!"+typeKey(ot)+p[dot:])
				if st, ok := ot.Underlying().(*types.Struct); ok {
					for i := 0; i < st.NumFields(); i++ {
						if st.Field(i).Name() != p[dot+1:] {
							continue
						}
						switch ft := st.Field(i).Type().Underlying().(type) {
						case *types.Slice:
							out = append(out, "E!"+typeKey(ft.Elem()))
						case *types.Map:
							k := typeKey(ft.Key()) + "!" + typeKey(ft.Elem())
							out = append(out, "MH!"+k, "MV!"+k, "ML!"+k)
						}
					}
				}
			}
		default:
			out = append(out, "O!"+typeKey(t)+"."+p)
			// a protected slice / map field protects its elements / entries as well
			if st, ok := t.Underlying().(*types.Struct); ok {
				for i := 0; i < st.NumFields(); i++ {
					if st.Field(i).Name() != p {
						continue
					}
					switch ft := st.Field(i).Type().Underlying().(type) {
					case *types.Slice:
						out = append(out, "E!"+typeKey(ft.Elem()))
					case *types.Map:
						k := typeKey(ft.Key()) + "!" + typeKey(ft.Elem())
						out = append(out, "MH!"+k, "MV!"+k, "ML!"+k)
					}
				}
			}
		}
	}
	return out
}

func (e *Engine) monitorProtected(key string) bool {
	for p := range e.protectedKeys {
		if key == p || strings.HasPrefix(key, p+".") {
			return true
		}
	}
	return false
}

// repoNamedTypes: all named (non-interface) types declared in packages of this repository.
func (e *Engine) repoNamedTypes() []types.Type {
	if e.namedTypes != nil {
		return e.namedTypes
	}
	for path, p := range e.pkgs {
		if !strings.HasPrefix(path, modulePath) {
			continue
		}
		sc := p.Types.Scope()
		for _, name := range sc.Names() {
			if tn, ok := sc.Lookup(name).(*types.TypeName); ok {
				if _, isIface := tn.Type().Underlying().(*types.Interface); !isIface {
					e.namedTypes = append(e.namedTypes, tn.Type())
				}
			}
		}
	}
	sort.Slice(e.namedTypes, func(i, j int) bool { return typeKey(e.namedTypes[i]) < typeKey(e.namedTypes[j]) })
	return e.namedTypes
}

// observedExternalTypes: named struct types defined outside the repository whose fields the repository's own code
// reads or writes (e.g. io.LimitedReader.N). An object of such a type handed to a dependency behind an interface can
// be changed by it, and the repository can see the change.
func (e *Engine) observedExternalTypes() []types.Type {
	if e.extObserved != nil {
		return e.extObserved
	}
	seen := map[string]bool{}
	e.extObserved = []types.Type{}
	for fn := range e.allFuncs {
		if !e.inRepo(fn) {
			continue
		}
		for _, b := range fn.Blocks {
			for _, ins := range b.Instrs {
				fa, ok := ins.(*ssa.FieldAddr)
				if !ok {
					continue
				}
				pt, ok := fa.X.Type().Underlying().(*types.Pointer)
				if !ok {
					continue
				}
				nt, ok := pt.Elem().(*types.Named)
				if !ok || nt.Obj().Pkg() == nil || strings.HasPrefix(nt.Obj().Pkg().Path(), modulePath) {
					continue
				}
				if k := typeKey(nt); !seen[k] {
					seen[k] = true
					e.extObserved = append(e.extObserved, nt)
				}
			}
		}
	}
	sort.Slice(e.extObserved, func(i, j int) bool { return typeKey(e.extObserved[i]) < typeKey(e.extObserved[j]) })
	return e.extObserved
}

// externalWriteSet: what code outside the repository (no contract) may write, derived from the static types at the call.
func (e *Engine) externalWriteSet(c *ssa.CallCommon) (types_, elems, maps_, ghostOwners map[string]bool, anything bool) {
	types_ = map[string]bool{}
	elems = map[string]bool{}
	maps_ = map[string]bool{}
	ghostOwners = map[string]bool{}
	var walk func(t types.Type, depth int)
	seen := map[string]bool{}
	walk = func(t types.Type, depth int) {
		if depth > 4 || t == nil {
			return
		}
		k := typeKey(t)
		if seen[k] {
			return
		}
		seen[k] = true
		if n, ok := t.(*types.Named); ok {
			ghostOwners[shortTypeName(n)] = true
			if n.Obj().Pkg() != nil {
				ghostOwners[n.Obj().Pkg().Path()+"."+n.Obj().Name()] = true
			}
		}
		switch u := t.Underlying().(type) {
		case *types.Pointer:
			types_[typeKey(u.Elem())] = true
			walk(u.Elem(), depth+1)
		case *types.Slice:
			elems[typeKey(u.Elem())] = true
			walk(u.Elem(), depth+1)
		case *types.Array:
			elems[typeKey(u.Elem())] = true
			walk(u.Elem(), depth+1)
		case *types.Map:
			maps_[typeKey(u.Key())+"!"+typeKey(u.Elem())] = true
			walk(u.Key(), depth+1)
			walk(u.Elem(), depth+1)
		case *types.Chan:
			walk(u.Elem(), depth+1)
		case *types.Struct:
			types_[typeKey(t)] = true
			for i := 0; i < u.NumFields(); i++ {
				walk(u.Field(i).Type(), depth+1)
			}
		case *types.Signature:
			// a function value handed over directly may be one of ours; function-typed fields of the structures it
			// can reach are not followed (listed assumption)
			if depth == 0 {
				anything = true
			}
		case *types.Interface:
			if u.NumMethods() == 0 {
				// interface{}: dynamic type unknown unless it was converted at this call (handled by the caller)
				return
			}
			// in-repo types implementing it may have their methods called (only for interfaces handed over directly:
			// following interface-typed fields of those types further would reach nearly every type)
			if depth > 0 {
				return
			}
			for _, nt := range e.repoNamedTypes() {
				if types.Implements(nt, u) || types.Implements(types.NewPointer(nt), u) {
					types_[typeKey(nt)] = true
					walk(nt, depth+1)
				}
			}
			// library types implementing it whose fields the repository looks at
			for _, nt := range e.observedExternalTypes() {
				if types.Implements(nt, u) || types.Implements(types.NewPointer(nt), u) {
					types_[typeKey(nt)] = true
				}
			}
		}
	}
	visit := func(v ssa.Value) {
		if mi, ok := v.(*ssa.MakeInterface); ok {
			walk(mi.X.Type(), 0)
			return
		}
		if _, isEmpty := v.Type().Underlying().(*types.Interface); isEmpty && v.Type().Underlying().(*types.Interface).NumMethods() == 0 {
			// an interface{} value of unknown dynamic type
			if _, isConst := v.(*ssa.Const); !isConst {
				anything = true
			}
			return
		}
		walk(v.Type(), 0)
	}
	for _, a := range c.Args {
		if e.repoFuncValue(a) != nil {
			// a function of this repository handed over as a value: the dependency may call it, so the call has
			// that function's own effects (added by the callers of externalWriteSet), nothing more on its account
			continue
		}
		visit(a)
	}
	if c.IsInvoke() {
		visit(c.Value)
	}
	return
}

// repoFuncValue: the in-repo function behind a function-valued argument (closure literal or named function), else nil.
func (e *Engine) repoFuncValue(v ssa.Value) *ssa.Function {
	var fn *ssa.Function
	switch x := v.(type) {
	case *ssa.MakeClosure:
		fn, _ = x.Fn.(*ssa.Function)
	case *ssa.Function:
		fn = x
	}
	if fn != nil && e.inRepo(fn) && len(fn.Blocks) > 0 {
		return fn
	}
	return nil
}

// chanDeclFor: the channel declaration for a channel value that is syntactically the load of field T.f, else nil.
func (e *Engine) chanDeclFor(v ssa.Value) *ChanDecl {
	x, ok := v.(*ssa.UnOp)
	if !ok || x.Op != token.MUL {
		return nil
	}
	fa, ok := x.X.(*ssa.FieldAddr)
	if !ok {
		return nil
	}
	ot := fa.X.Type().Underlying().(*types.Pointer).Elem()
	st, ok := ot.Underlying().(*types.Struct)
	if !ok {
		return nil
	}
	name := st.Field(fa.Field).Name()
	for _, d := range e.chanDecls {
		if d.Field != name || d.E == nil {
			continue
		}
		if t := e.lookupType(d.Pkg, d.Type); t != nil && types.Identical(t, ot) {
			return d
		}
	}
	return nil
}

// chanAliasObligations: closed-world side condition of the channel declarations: every send in the repository on a
// channel with the element type of a declared channel goes syntactically through the declared field (a send through
// a copy of the channel value would escape the obligation).
func (e *Engine) chanAliasObligations() []*Obligation {
	var out []*Obligation
	for _, d := range e.chanDecls {
		ot := e.lookupType(d.Pkg, d.Type)
		if ot == nil {
			continue
		}
		if d.E == nil {
			// `closed by`: every close(x.f) in the repository is in one of the named functions
			var bad []string
			for fn := range e.allFuncs {
				if !e.inRepo(fn) || strings.HasSuffix(e.prog.Fset.Position(fn.Pos()).Filename, "_test.go") {
					continue
				}
				for _, b := range fn.Blocks {
					for _, ins := range b.Instrs {
						var cc *ssa.CallCommon
						switch x := ins.(type) {
						case *ssa.Call:
							cc = &x.Call
						case *ssa.Defer:
							cc = &x.Call
						case *ssa.Go:
							cc = &x.Call
						}
						if cc == nil {
							continue
						}
						bi, ok := cc.Value.(*ssa.Builtin)
						if !ok || bi.Name() != "close" || len(cc.Args) != 1 {
							continue
						}
						un, ok := cc.Args[0].(*ssa.UnOp)
						if !ok || un.Op != token.MUL {
							continue
						}
						fa, ok := un.X.(*ssa.FieldAddr)
						if !ok {
							continue
						}
						st, ok := fa.X.Type().Underlying().(*types.Pointer).Elem().Underlying().(*types.Struct)
						if !ok || !types.Identical(fa.X.Type().Underlying().(*types.Pointer).Elem(), ot) || st.Field(fa.Field).Name() != d.Field {
							continue
						}
						allowed := false
						for _, c := range d.Closers {
							if fn.Name() == c || relName(fn) == c {
								allowed = true
							}
						}
						if !allowed {
							bad = append(bad, relName(fn)+" at "+e.prog.Fset.Position(ins.Pos()).String())
						}
					}
				}
			}
			sort.Strings(bad)
			o := &Obligation{Name: shortPkg(d.Pkg) + "/channel." + d.Type + "." + d.Field + ".closed-only-by", Kind: "channel-closer", Func: shortPkg(d.Pkg), Goal: "true", PC: "true", Structural: true, StructOK: len(bad) == 0, Props: d.Props,
				Desc: "the channel held in " + d.Type + "." + d.Field + " is closed (through the field) only in " + strings.Join(d.Closers, ", ")}
			if len(bad) > 0 {
				o.Note = "closed elsewhere: " + strings.Join(bad, "; ")
			}
			out = append(out, o)
			continue
		}
		st, ok := ot.Underlying().(*types.Struct)
		if !ok {
			continue
		}
		var et types.Type
		for i := 0; i < st.NumFields(); i++ {
			if st.Field(i).Name() == d.Field {
				if ct, ok := st.Field(i).Type().Underlying().(*types.Chan); ok {
					et = ct.Elem()
				}
			}
		}
		if et == nil {
			continue
		}
		var bad []string
		for fn := range e.allFuncs {
			if !e.inRepo(fn) || strings.HasSuffix(e.prog.Fset.Position(fn.Pos()).Filename, "_test.go") {
				continue
			}
			for _, b := range fn.Blocks {
				for _, ins := range b.Instrs {
					var chans []ssa.Value
					switch x := ins.(type) {
					case *ssa.Send:
						chans = append(chans, x.Chan)
					case *ssa.Select:
						for _, s := range x.States {
							if s.Dir == types.SendOnly {
								chans = append(chans, s.Chan)
							}
						}
					}
					for _, c := range chans {
						ct, ok := c.Type().Underlying().(*types.Chan)
						if !ok || !types.Identical(ct.Elem(), et) {
							continue
						}
						if e.chanDeclFor(c) == nil {
							bad = append(bad, relName(fn)+" at "+e.prog.Fset.Position(ins.Pos()).String())
						}
					}
				}
			}
		}
		sort.Strings(bad)
		o := &Obligation{Name: shortPkg(d.Pkg) + "/channel." + d.Type + "." + d.Field + ".no-alias-send", Kind: "channel-alias", Func: shortPkg(d.Pkg), Goal: "true", PC: "true", Structural: true, StructOK: len(bad) == 0, Props: d.Props,
			Desc: "every send on a channel of element type " + et.String() + " goes through field " + d.Type + "." + d.Field + " (so the declared channel contract is checked at every send)"}
		if len(bad) > 0 {
			o.Note = "sends through another channel value: " + strings.Join(bad, "; ")
		}
		out = append(out, o)
	}
	return out
}

type statelessDecl struct {
	Pkg   string
	Props []string
}

// statelessObligations: `stateless package [props]` — the package keeps no mutable package-level state, so that two
// activations of its functions (two decoders, two requests) cannot influence each other through it. One structural
// obligation per package-level variable of the package: it is assigned only by the package initialiser and no writable
// view of it (its address, a slice of it) is created anywhere in the repository.
func (e *Engine) statelessObligations(prop string) []*Obligation {
	var out []*Obligation
	for _, d := range e.stateless {
		has := false
		for _, p := range d.Props {
			has = has || p == prop
		}
		if !has {
			continue
		}
		sp := e.spkgs[d.Pkg]
		if sp == nil {
			continue
		}
		var names []string
		for n, m := range sp.Members {
			if _, ok := m.(*ssa.Global); ok && !strings.HasPrefix(n, "init$") {
				names = append(names, n)
			}
		}
		sort.Strings(names)
		u := newUnit("stateless/" + d.Pkg)
		out = append(out, &Obligation{Name: shortPkg(d.Pkg) + "/stateless.package", Kind: "stateless", Func: shortPkg(d.Pkg), Goal: "true", PC: "true", Unit: u, Props: []string{prop}, Structural: true, StructOK: true, Note: fmt.Sprintf("%d package-level variables scanned", len(names)), Desc: "package " + shortPkg(d.Pkg) + " declares no mutable package-level state (one obligation per variable follows)"})
		for _, n := range names {
			g := sp.Members[n].(*ssa.Global)
			ok := e.globalImmutable(g) && !e.globalAddressEscapes(g)
			o := &Obligation{Name: shortPkg(d.Pkg) + "/stateless." + n, Kind: "stateless", Func: shortPkg(d.Pkg), Goal: "true", PC: "true", Unit: u, Props: []string{prop}, Structural: true, StructOK: ok, Desc: "package-level variable " + n + " is assigned only by the package initialiser and no writable view of it escapes (scan of every use in the repository)"}
			if !ok {
				o.Note = "package-level variable " + n + " is written, sliced or has its address taken outside init: state shared by all activations"
			}
			out = append(out, o)
		}
	}
	return out
}

// globalAddressEscapes: the address of g (or of a part of it) is used for anything but loading from it.
func (e *Engine) globalAddressEscapes(g *ssa.Global) bool {
	for fn := range e.allFuncs {
		if !e.inRepo(fn) || (fn.Name() == "init" && fn.Pkg == g.Pkg) {
			continue
		}
		for _, b := range fn.Blocks {
			for _, ins := range b.Instrs {
				for _, op := range ins.Operands(nil) {
					if op == nil || *op == nil || rootGlobal(*op) != g {
						continue
					}
					switch x := ins.(type) {
					case *ssa.UnOp:
						if x.Op == token.MUL {
							// loaded: a map or slice held in the variable must not be updated in place either
							if x.Referrers() != nil {
								for _, r := range *x.Referrers() {
									switch y := r.(type) {
									case *ssa.MapUpdate:
										if y.Map == ssa.Value(x) {
											return true
										}
									case *ssa.IndexAddr:
										if y.X == ssa.Value(x) && y.Referrers() != nil {
											for _, r2 := range *y.Referrers() {
												if st, ok := r2.(*ssa.Store); ok && st.Addr == ssa.Value(y) {
													return true
												}
											}
										}
									}
								}
							}
							continue
						}
					case *ssa.FieldAddr, *ssa.IndexAddr, *ssa.DebugRef:
						continue
					}
					return true
				}
			}
		}
	}
	return false
}

// publishedBefore: the object whose field `st` assigns (ptr: the pointer operand of the FieldAddr, fresh-rooted) has,
// on some path, already been handed to other code before the store executes: passed to a call, stored into memory
// other than the local variable that names it, sent, converted to an interface, captured by a closure. Returns the
// publishing instruction, or nil. The objects of interest are named by one local variable (`x := new(T)` /
// `x := &T{...}`): the aliases are the allocation itself and every load of that variable.
func publishedBefore(ptr ssa.Value, st *ssa.Store) ssa.Instruction {
	aliases := map[ssa.Value]bool{}
	var cell *ssa.Alloc
	switch x := ptr.(type) {
	case *ssa.Alloc:
		aliases[x] = true
	case *ssa.UnOp:
		c, ok := x.X.(*ssa.Alloc)
		if !ok || c.Referrers() == nil {
			return nil
		}
		cell = c
		for _, r := range *c.Referrers() {
			switch y := r.(type) {
			case *ssa.Store:
				if y.Addr == ssa.Value(c) {
					aliases[y.Val] = true
				}
			case *ssa.UnOp:
				if y.Op == token.MUL {
					aliases[y] = true
				}
			}
		}
	default:
		return nil
	}
	fn := st.Parent()
	var pubs []ssa.Instruction
	for _, b := range fn.Blocks {
		for _, ins := range b.Instrs {
			switch x := ins.(type) {
			case *ssa.Call:
				if _, isBuiltin := x.Call.Value.(*ssa.Builtin); isBuiltin {
					continue
				}
				for _, a := range x.Call.Args {
					if aliases[a] {
						pubs = append(pubs, ins)
					}
				}
				if x.Call.IsInvoke() && aliases[x.Call.Value] {
					pubs = append(pubs, ins)
				}
			case *ssa.Go:
				for _, a := range x.Call.Args {
					if aliases[a] {
						pubs = append(pubs, ins)
					}
				}
			case *ssa.Defer:
				for _, a := range x.Call.Args {
					if aliases[a] {
						pubs = append(pubs, ins)
					}
				}
			case *ssa.Store:
				if aliases[x.Val] && (cell == nil || x.Addr != ssa.Value(cell)) {
					if _, isAlloc := x.Addr.(*ssa.Alloc); !isAlloc || x.Addr.(*ssa.Alloc).Heap {
						pubs = append(pubs, ins)
					}
				}
			case *ssa.Send:
				if aliases[x.X] {
					pubs = append(pubs, ins)
				}
			case *ssa.MakeInterface:
				if aliases[x.X] {
					pubs = append(pubs, ins)
				}
			case *ssa.MakeClosure:
				for _, bnd := range x.Bindings {
					if aliases[bnd] || (cell != nil && bnd == ssa.Value(cell)) {
						pubs = append(pubs, ins)
					}
				}
			case *ssa.MapUpdate:
				if aliases[x.Value] || aliases[x.Key] {
					pubs = append(pubs, ins)
				}
			}
		}
	}
	// is the store reachable from a publication?
	for _, p := range pubs {
		pb := p.Block()
		pi := -1
		for j, x := range pb.Instrs {
			if x == p {
				pi = j
			}
		}
		visited := map[*ssa.BasicBlock]bool{}
		found := false
		var scan func(blk *ssa.BasicBlock, from int)
		scan = func(blk *ssa.BasicBlock, from int) {
			for j := from; j < len(blk.Instrs) && !found; j++ {
				if blk.Instrs[j] == ssa.Instruction(st) {
					found = true
				}
			}
			for _, sc := range blk.Succs {
				if !visited[sc] && !found {
					visited[sc] = true
					scan(sc, 0)
				}
			}
		}
		scan(pb, pi+1)
		if found {
			return p
		}
	}
	return nil
}
