package main

// go.capture: a goroutine started with `go func() {...}()` shares, by reference, every variable of its spawner that
// the closure mentions. If the spawner can assign such a variable again after the `go` statement (a later statement,
// or the next iteration of the loop the statement is in - before Go 1.22 semantics, which the module's `go` directive
// selects, a loop variable is one variable for all iterations), the goroutine reads whichever value happens to be there
// when it runs: a data race and, typically, two goroutines serving the same connection and none serving the other.
// Structural obligation, one per captured variable per `go` statement, closed-world over the repository (C20) and
// additionally attached to every function verified for another property.

import (
	"fmt"
	"go/token"
	"sort"
	"strings"

	"golang.org/x/tools/go/ssa"
)

type captureSite struct {
	Fn     *ssa.Function
	Go     *ssa.Go
	Var    *ssa.Alloc
	Stores []token.Pos
}

// captureSites returns, for fn, every (go statement, captured variable) pair with the positions of the spawner's
// assignments that can execute after the go statement.
func captureSites(fn *ssa.Function) []captureSite {
	var out []captureSite
	if len(fn.Blocks) == 0 {
		return out
	}
	// storesAfter: stores to al that can execute after instruction (b, gi) on a path that does not execute al's own
	// Alloc instruction again (a variable declared inside a loop body is a new variable in every iteration).
	storesAfter := func(b *ssa.BasicBlock, gi int, al *ssa.Alloc) []token.Pos {
		var found []token.Pos
		seenStore := map[ssa.Instruction]bool{}
		visited := map[*ssa.BasicBlock]bool{}
		var scan func(blk *ssa.BasicBlock, from int)
		scan = func(blk *ssa.BasicBlock, from int) {
			for j := from; j < len(blk.Instrs); j++ {
				x := blk.Instrs[j]
				if x == ssa.Instruction(al) {
					return
				}
				if st, ok := x.(*ssa.Store); ok && st.Addr == ssa.Value(al) && !seenStore[x] {
					seenStore[x] = true
					found = append(found, st.Pos())
				}
			}
			for _, sc := range blk.Succs {
				if !visited[sc] {
					visited[sc] = true
					scan(sc, 0)
				}
			}
		}
		scan(b, gi+1)
		return found
	}
	for _, b := range fn.Blocks {
		for gi, ins := range b.Instrs {
			g, ok := ins.(*ssa.Go)
			if !ok {
				continue
			}
			mc, ok := g.Call.Value.(*ssa.MakeClosure)
			if !ok {
				continue
			}
			for _, bind := range mc.Bindings {
				al, ok := bind.(*ssa.Alloc)
				if !ok {
					continue
				}
				if stores := storesAfter(b, gi, al); len(stores) > 0 {
					out = append(out, captureSite{Fn: fn, Go: g, Var: al, Stores: stores})
				}
			}
		}
	}
	return out
}

// captureObligations: the structural obligations of one function (all its go statements with a closure).
func (e *Engine) captureObligations(fn *ssa.Function, props []string) []*Obligation {
	var out []*Obligation
	if len(fn.Blocks) == 0 {
		return out
	}
	short := shortPkg(fnPkgPath(fn)) + "." + relName(fn)
	bad := map[string]captureSite{}
	for _, cs := range captureSites(fn) {
		bad[fmt.Sprintf("%p/%p", cs.Go, cs.Var)] = cs
	}
	u := newUnit("capture/" + short)
	n := 0
	for _, b := range fn.Blocks {
		for _, ins := range b.Instrs {
			g, ok := ins.(*ssa.Go)
			if !ok {
				continue
			}
			mc, ok := g.Call.Value.(*ssa.MakeClosure)
			if !ok {
				continue
			}
			for _, bind := range mc.Bindings {
				al, ok := bind.(*ssa.Alloc)
				if !ok {
					continue
				}
				n++
				name := strings.TrimSpace(al.Comment)
				if name == "" {
					name = al.Name()
				}
				o := &Obligation{Name: fmt.Sprintf("%s/go.capture.%s#%d", short, name, n), Kind: "go.capture", Func: short, Pos: e.posString(g.Pos()), Goal: "true", PC: "true", Unit: u, Props: props, Structural: true, StructOK: true,
					Desc: "variable " + name + " shared with the goroutine started here is not assigned again by the spawner after the go statement (nor in a later iteration of an enclosing loop)"}
				if cs, isBad := bad[fmt.Sprintf("%p/%p", g, al)]; isBad {
					o.StructOK = false
					var ps []string
					for _, p := range cs.Stores {
						ps = append(ps, e.posString(p))
					}
					sort.Strings(ps)
					o.Note = "the spawner assigns " + name + " again at " + strings.Join(ps, ", ") + " while the goroutine may still read it"
				}
				out = append(out, o)
			}
		}
	}
	return out
}

func (e *Engine) posString(p token.Pos) string {
	pp := e.fset.Position(p)
	return fmt.Sprintf("%s:%d", strings.TrimPrefix(pp.Filename, "/repo/"), pp.Line)
}
