package main

// `sfverify fields`: exploration aid for C20 (not a check). Lists every struct field of the repository that is
// assigned outside the function that allocates its object and is neither declared guarded / atomic / immutable nor a
// monitor-protected component: the candidates for shared mutable state that the hand-chosen guard declarations may
// have missed. The list is triaged by hand (DESIGN section 9); nothing here is reported as a violation.

import (
	"fmt"
	"go/types"
	"path/filepath"
	"sort"
	"strings"

	"golang.org/x/tools/go/ssa"
)

func cmdFields(args []string) int {
	e, err := LoadEngine("/repo", repoPatterns(), filepath.Join(verifDir, "prelude"))
	if err != nil {
		fmt.Println(err)
		return 2
	}
	e.computeImmutable()
	declared := map[string]bool{}
	for _, g := range e.guarded {
		if t := e.lookupType(g.Pkg, g.Type); t != nil {
			declared[typeKey(t)+"."+g.Field] = true
		}
	}
	for k := range e.immutableKeys {
		declared[strings.TrimPrefix(k, "O!")] = true
	}
	type info struct {
		writers map[string]bool
		readers map[string]bool
	}
	fields := map[string]*info{}
	for fn := range e.allFuncs {
		if !e.inRepo(fn) || len(fn.Blocks) == 0 || strings.HasSuffix(e.fset.Position(fn.Pos()).Filename, "_test.go") {
			continue
		}
		for _, b := range fn.Blocks {
			for _, ins := range b.Instrs {
				fa, ok := ins.(*ssa.FieldAddr)
				if !ok || fa.Referrers() == nil {
					continue
				}
				ot := fa.X.Type().Underlying().(*types.Pointer).Elem()
				nt, ok := ot.(*types.Named)
				if !ok || nt.Obj().Pkg() == nil || !strings.HasPrefix(nt.Obj().Pkg().Path(), modulePath) {
					continue
				}
				st := ot.Underlying().(*types.Struct)
				key := typeKey(ot) + "." + st.Field(fa.Field).Name()
				ft := st.Field(fa.Field).Type()
				if strings.Contains(ft.String(), "sync.") {
					continue
				}
				fi := fields[key]
				if fi == nil {
					fi = &info{map[string]bool{}, map[string]bool{}}
					fields[key] = fi
				}
				for _, r := range *fa.Referrers() {
					switch x := r.(type) {
					case *ssa.Store:
						if x.Addr == ssa.Value(fa) && !freshRooted(fa.X, nil, 0) {
							fi.writers[relName(fn)] = true
						}
					case *ssa.UnOp:
						fi.readers[relName(fn)] = true
					}
				}
			}
		}
	}
	var keys []string
	for k, fi := range fields {
		if len(fi.writers) > 0 && !declared[k] {
			keys = append(keys, k)
		}
	}
	sort.Strings(keys)
	for _, k := range keys {
		fi := fields[k]
		var w, r []string
		for x := range fi.writers {
			w = append(w, x)
		}
		for x := range fi.readers {
			r = append(r, x)
		}
		sort.Strings(w)
		sort.Strings(r)
		fmt.Printf("%-55s written in %s; read in %s\n", k, strings.Join(w, ","), clip(strings.Join(r, ","), 120))
	}
	fmt.Printf("fields: %d candidates (assigned outside their constructor, not declared guarded/atomic/immutable)\n", len(keys))
	return 0
}
