package main

import (
	"fmt"
	"go/types"
	"runtime/debug"
	"sort"
	"strings"

	"golang.org/x/tools/go/ssa"
)

func (e *Engine) newFuncCtx(u *Unit, fn *ssa.Function, con *Contract, pkgPath string) *FuncCtx {
	fc := &FuncCtx{eng: e, u: u, fn: fn, con: con, pkgPath: pkgPath, strLits: map[string]string{}, tagIDs: map[string]int{}, ordinals: map[string]int{}, errConsts: map[string]int{}, callCount: map[string]int{}, clauseHit: map[*Clause]int{}}
	fc.edgePCs = map[edgeKey]string{}
	fc.compSorts = map[string]string{}
	fc.deferRecs = map[deferKey]*deferRec{}
	fc.inlineStack = map[*ssa.Function]bool{}
	fc.freshRefs = map[string]bool{}
	fc.boxed = map[string]string{}
	fc.cellPrefixes = map[string]bool{}
	fc.afterHit = map[*AtCall]int{}
	fc.model = "int"
	fc.strmode = "opaque"
	if con != nil {
		if con.Model != "" {
			fc.model = con.Model
		}
		if con.Strings != "" {
			fc.strmode = con.Strings
		}
		if con.Bytes == "smtlib" {
			fc.bytesStr = true
			fc.strmode = "smtlib"
		}
		fc.props = con.Props
		for _, rq := range con.Requires {
			if strings.Contains(rq.Src, "held(") {
				fc.entryLocksSymbolic = true
			}
		}
	}
	return fc
}

func emptyState() *State {
	return &State{pc: "true", locals: map[localKey]Value{}, heap: map[string]string{}, ghost: map[string]Value{}}
}

// findFunc locates the ssa.Function for a contract key in a package.
func (e *Engine) findFunc(pkgPath, key string) *ssa.Function {
	sp := e.spkgs[pkgPath]
	if sp == nil {
		return nil
	}
	for fn := range e.allFuncs {
		if fnPkgPath(fn) == pkgPath && relName(fn) == key && len(fn.Blocks) > 0 {
			if fn.Synthetic != "" && !strings.Contains(fn.Name(), "$") && fn.Name() != "init" {
				continue
			}
			return fn
		}
	}
	return nil
}

// VerifyFunc generates the obligations of one function under contract.
func (e *Engine) VerifyFunc(con *Contract) *Unit {
	u := newUnit(con.Pkg + "::" + con.Key)
	fn := e.findFunc(con.Pkg, con.Key)
	short := shortPkg(con.Pkg) + "." + con.Key
	if fn == nil {
		u.Obls = append(u.Obls, &Obligation{Name: short + "/contract-drift", Kind: "contract-drift", Func: short, Goal: "false", PC: "true", Unit: u, Props: con.Props, Structural: true, StructOK: false, Note: "no function " + con.Key + " in package " + con.Pkg, Desc: "contract names a function that does not exist"})
		return u
	}
	fc := e.newFuncCtx(u, fn, con, con.Pkg)
	func() {
		defer func() {
			if r := recover(); r != nil {
				if ue, ok := r.(unsupportedErr); ok {
					u.Unsupported = append(u.Unsupported, ue.msg)
					return
				}
				u.Unsupported = append(u.Unsupported, fmt.Sprintf("internal error: %v\n%s", r, debug.Stack()))
			}
		}()
		fc.verifyBody(short)
	}()
	if len(u.Unsupported) > 0 {
		u.Obls = append(u.Obls, &Obligation{Name: short + "/unsupported", Kind: "unsupported", Func: short, Goal: "false", PC: "true", Unit: u, Props: con.Props, Structural: true, StructOK: false, Note: strings.Join(u.Unsupported, "; "), Desc: "function uses a construct outside the verified subset: nothing about it is counted as proved"})
	}
	return u
}

func shortPkg(p string) string {
	p = strings.TrimPrefix(p, modulePath+"/")
	return p
}

func (fc *FuncCtx) verifyBody(short string) {
	fn, con := fc.fn, fc.con
	st := emptyState()
	fr := fc.newFrame(fn, con, short)
	fr.top = true
	fr.entryVars = map[string]Value{}
	fc.allocTerm(st)
	// parameters
	params := fn.Params
	names := []string{}
	if con.Recv != nil && !strings.Contains(con.Key, "$") {
		// (the receiver of a closure's enclosing method is a free variable of the closure, not a parameter)
		names = append(names, con.Recv.Name)
	}
	for _, p := range con.Params {
		names = append(names, p.Name)
	}
	if len(names) != len(params) {
		fc.driftf(fr, "contract signature has %d parameters (incl. receiver), function has %d", len(names), len(params))
		return
	}
	for i, p := range params {
		v := fc.freshValue(st, p.Type(), "in."+p.Name())
		fr.vals[p] = v
		fr.entryVars[p.Name()] = v
		if names[i] != p.Name() && names[i] != "_" {
			// the contract may use its own parameter names
			fr.entryVars[names[i]] = v
		}
	}
	for _, fv := range fn.FreeVars {
		// captured variable: pointer to a heap cell, non-nil
		r := fc.u.fresh("fv."+fv.Name(), "Int")
		fc.u.fact("true", "(and (> "+r+" 0) (<= "+r+" alloc0))")
		pt := fv.Type().(*types.Pointer)
		fr.vals[fv] = fc.objPlace(r, pt.Elem())
	}
	nres := fn.Signature.Results().Len()
	if len(con.Results) != nres {
		fc.driftf(fr, "contract declares %d results, function has %d", len(con.Results), nres)
		return
	}
	for _, r := range con.Results {
		fr.resultNames = append(fr.resultNames, r.Name)
	}
	// entry ghost updates and requires
	fr.entry = st
	for _, gu := range con.AtEntry {
		ev := fc.newEnv(fr, st, st)
		ev.useEntryParams = true
		fc.applyGhostUpdate(ev, st, gu)
	}
	for _, rq := range con.Requires {
		ev := fc.newEnv(fr, st, st)
		ev.useEntryParams = true
		fc.u.fact("true", ev.evalBool(rq.E))
		fc.clauseHit[rq]++
	}
	if fc.guardMode && fc.guardAcc != nil {
		// lock-free accessor: the lock of the object it is handed is held on entry (checked at every call site)
		for pi, lock := range fc.guardAcc[fn] {
			if pi < 0 {
				if lt, lf, _ := fc.eng.resolveForeignLock(lock); lt != nil {
					key := "L!O!" + typeKey(lt) + "." + lf
					ref := fc.u.fresh("flk", "Int")
					cur := fc.compTerm(st, key, "(Array Int Bool)")
					fc.setComp(st, key, "(Array Int Bool)", "(store "+cur+" "+ref+" true)")
					st.heldLocks = append(st.heldLocks, key+"|"+ref)
				}
				continue
			}
			if pi < len(params) {
				pv, ok := fr.vals[params[pi]].(Scalar)
				pt, isPtr := params[pi].Type().Underlying().(*types.Pointer)
				if ok && isPtr {
					key := "L!O!" + typeKey(pt.Elem()) + "." + lock
					cur := fc.compTerm(st, key, "(Array Int Bool)")
					fc.setComp(st, key, "(Array Int Bool)", "(store "+cur+" "+pv.T+" true)")
					fc.u.fact("true", tNot(tEq(pv.T, "0")))
				}
			}
		}
	}
	for _, as := range con.Assumes {
		ev := fc.newEnv(fr, st, st)
		ev.useEntryParams = true
		fc.u.fact("true", ev.evalBool(as.E))
		fc.u.Assumptions["ghost-state well-formedness assumed for "+con.Key+": "+as.Src] = true
	}
	for _, us := range con.Uses {
		fc.useLemma(us)
	}
	if fn.Name() != "init" || fn.Synthetic == "" {
		// facts about initialiser-only globals of this package (proved for init under the same property tags)
		for _, gf := range fc.eng.globals {
			if gf.Pkg != fc.pkgPath {
				continue
			}
			ev := fc.newEnv(fr, st, st)
			fc.u.fact("true", ev.evalBool(gf.Clause.E))
			fc.u.Assumptions["package-level fact `"+gf.Clause.Src+"` (established by the package initialiser: obligation "+shortPkg(gf.Pkg)+".init/post, and the variable is never assigned elsewhere: checked by a scan of every store in the package)"] = true
		}
	}
	if fc.isPkgInit() {
		// the initialiser runs once: its guard variable is false on entry
		for _, m := range fn.Pkg.Members {
			if g, ok := m.(*ssa.Global); ok && g.Name() == "init$guard" {
				fc.storeAt(st, "G!"+globalKey(g), nil, nil, "", types.Typ[types.Bool], Scalar{"false", "Bool", types.Typ[types.Bool]})
			}
		}
	}
	entrySnap := st.clone()
	fr.entry = entrySnap
	// vacuity: the precondition is satisfiable
	pre := &Obligation{Name: short + "/pre-sat", Kind: "vacuity", Func: short, LogLen: len(fc.u.Log), Goal: "true", PC: "true", Unit: fc.u, Props: fc.props, WantSat: true, Desc: "requires ∧ assumed invariants ∧ axioms are satisfiable (the proof is not vacuous)"}
	fc.u.Obls = append(fc.u.Obls, pre)

	if con.Flags["paths"] != "" {
		fc.verifyPaths(fr, st, entrySnap, short)
		return
	}
	exit, results := fc.execFrame(fr, st)
	fc.watchObligations(fr)
	if exit.dead {
		if len(con.Ensures) > 0 {
			fc.driftf(fr, "function has no reachable return, but the contract has ensures clauses")
		}
		return
	}
	cover := &Obligation{Name: short + "/cover.return", Kind: "vacuity", Func: short, LogLen: len(fc.u.Log), Goal: "true", PC: exit.pc, Unit: fc.u, Props: fc.props, WantSat: true, Desc: "some return is reachable under the precondition"}
	fc.u.Obls = append(fc.u.Obls, cover)
	fc.lockLeak(fr, exit, entrySnap)
	// ghost updates at exit
	vars := map[string]Value{}
	for i, rn := range fr.resultNames {
		if i < len(results) {
			vars[rn] = results[i]
		}
	}
	for _, gu := range con.AtExit {
		ev := fc.newEnv(fr, exit, entrySnap)
		ev.useEntryParams = true
		for k, v := range vars {
			ev.vars[k] = v
		}
		fc.applyGhostUpdate(ev, exit, gu)
	}
	for i, en := range con.Ensures {
		ev := fc.newEnv(fr, exit, entrySnap)
		ev.useEntryParams = true
		for k, v := range vars {
			ev.vars[k] = v
		}
		g := ev.evalBool(en.E)
		label := en.Label
		o := fc.oblige(fr, exit, "post", labelOr(label, ""), g, fn.Pos(), "postcondition: "+en.Src)
		if o != nil && label == "" {
			o.Name = fmt.Sprintf("%s/post#%d", short, i+1)
		}
		if o != nil {
			fc.modelTerms(o, fr, results, exit)
		}
		fc.clauseHit[en]++
	}
	// clause vacuity: every at-call / loop clause must have attached to code
	for _, ac := range con.AtCalls {
		if ac.After && fc.afterHit[ac] == 0 {
			fc.driftf(fr, "`after call %s` clause attached to no call site", ac.Callee)
		}
		if ac.Assert != nil && fc.clauseHit[ac.Assert] == 0 {
			fc.driftf(fr, "`at call %s` clause attached to no call site", ac.Callee)
		}
	}
}

func labelOr(a, b string) string {
	if a != "" {
		return a
	}
	return b
}

// modelTerms registers the terms whose values are wanted in a counterexample: scalar parameters and results.
func (fc *FuncCtx) modelTerms(o *Obligation, fr *Frame, results []Value, exit *State) {
	if len(o.ModelTerms) > 0 {
		return
	}
	o.Fn = fr.fn
	push := func(name, term, sort string) {
		o.ModelTerms = append(o.ModelTerms, term)
		o.ModelNames = append(o.ModelNames, name)
		o.ModelSorts = append(o.ModelSorts, sort)
	}
	add := func(name string, v Value) {
		switch x := v.(type) {
		case Scalar:
			push(name, x.T, x.Sort)
		case SliceV:
			push("len("+name+")", x.Len, fc.intSort())
			st := fr.entry
			if strings.HasPrefix(name, "result:") {
				st = exit
			}
			if bt, ok := x.Elem.Underlying().(*types.Basic); ok && bt.Kind() == types.Uint8 && st != nil && fc.u.quant == 0 {
				// the first bytes of a byte-slice parameter as they are on entry / of a byte-slice result on exit
				for k := 0; k < 24; k++ {
					pl := fc.elemPlace(x.Base, fc.elemIdx(x.Off, fc.ilit(int64(k))), x.Elem)
					if sc, ok := fc.loadPlace(st, pl).(Scalar); ok {
						push(fmt.Sprintf("%s[%d]", name, k), sc.T, sc.Sort)
					}
				}
			}
		}
	}
	var names []string
	for n := range fr.entryVars {
		names = append(names, n)
	}
	sort.Strings(names)
	for _, n := range names {
		add(n, fr.entryVars[n])
	}
	for i, r := range results {
		if i < len(fr.resultNames) {
			add(fmt.Sprintf("result:%d:%s", i, fr.resultNames[i]), r)
		}
	}
}

// useLemma asserts a lemma (proved in its own unit) or an axiom as a quantified fact.
func (fc *FuncCtx) useLemma(name string) {
	for _, lm := range fc.eng.lemmas {
		if lm.Name != name {
			continue
		}
		ev := &Env{fc: fc, pkg: lm.Pkg, vars: map[string]Value{}, st: emptyState()}
		ev.old = ev.st
		var decls []string
		for _, p := range lm.Params {
			t, srt := ev.resolveSpecType(p.Type)
			n := qsym("l!" + p.Name)
			decls = append(decls, "("+n+" "+srt+")")
			ev.vars[p.Name] = Scalar{n, srt, t}
		}
		fc.u.quant++
		body := ev.evalBool(lm.Body.E)
		fc.u.quant--
		if len(decls) > 0 {
			body = "(forall (" + strings.Join(decls, " ") + ") " + body + ")"
		}
		fc.u.emit("(assert " + body + ")")
		if lm.Axiom {
			fc.u.Assumptions["axiom "+lm.Name+": "+lm.Body.Src+" — "+lm.Why] = true
		}
		return
	}
	fc.unsupported("unknown lemma %q", name)
}

// VerifyLemma: a lemma is proved once, by SMT, over its declared parameters.
func (e *Engine) VerifyLemma(lm *LemmaDecl) *Unit {
	u := newUnit(lm.Pkg + "::lemma/" + lm.Name)
	name := shortPkg(lm.Pkg) + ".lemma/" + lm.Name
	con := &Contract{Pkg: lm.Pkg, Model: lm.Model, Strings: lm.Strings, Props: lm.Props}
	fc := e.newFuncCtx(u, nil, con, lm.Pkg)
	func() {
		defer func() {
			if r := recover(); r != nil {
				if ue, ok := r.(unsupportedErr); ok {
					u.Unsupported = append(u.Unsupported, ue.msg)
					return
				}
				u.Unsupported = append(u.Unsupported, fmt.Sprintf("internal error: %v\n%s", r, debug.Stack()))
			}
		}()
		ev := &Env{fc: fc, pkg: lm.Pkg, vars: map[string]Value{}, st: emptyState()}
		ev.old = ev.st
		for _, p := range lm.Params {
			t, srt := ev.resolveSpecType(p.Type)
			n := fc.u.declConst(qsym("lp!"+p.Name), srt)
			sc := Scalar{n, srt, t}
			ev.vars[p.Name] = sc
			if t != nil {
				fc.scalarFacts(ev.st, sc)
			}
		}
		for _, us := range lm.Uses {
			fc.useLemma(us)
		}
		for _, h := range lm.Hyps {
			fc.u.emit("(assert " + ev.evalBool(h) + ")")
		}
		g := ev.evalBool(lm.Body.E)
		if lm.Axiom {
			return
		}
		o := &Obligation{Name: name, Kind: "lemma", Func: name, LogLen: len(fc.u.Log), Goal: g, PC: "true", Unit: u, Props: lm.Props, Desc: "lemma: " + lm.Body.Src}
		for _, p := range lm.Params {
			o.ModelTerms = append(o.ModelTerms, qsym("lp!"+p.Name))
			o.ModelNames = append(o.ModelNames, p.Name)
		}
		u.Obls = append(u.Obls, o)
	}()
	if len(u.Unsupported) > 0 {
		u.Obls = append(u.Obls, &Obligation{Name: name + "/unsupported", Kind: "unsupported", Func: name, Goal: "false", PC: "true", Unit: u, Props: lm.Props, Structural: true, StructOK: false, Note: strings.Join(u.Unsupported, "; ")})
	}
	return u
}

// verifyPaths: postconditions are checked at every return of every path separately.
func (fc *FuncCtx) verifyPaths(fr *Frame, st *State, entrySnap *State, short string) {
	fn, con := fc.fn, fc.con
	rets := fc.execFramePaths(fr, st)
	fc.watchObligations(fr)
	if len(rets) == 0 {
		if len(con.Ensures) > 0 {
			fc.driftf(fr, "function has no reachable return, but the contract has ensures clauses")
		}
		return
	}
	var pcs []string
	for _, r := range rets {
		pcs = append(pcs, r.st.pc)
	}
	cover := &Obligation{Name: short + "/cover.return", Kind: "vacuity", Func: short, LogLen: len(fc.u.Log), Goal: "true", PC: tOr(pcs...), Unit: fc.u, Props: fc.props, WantSat: true, Desc: "some return is reachable under the precondition"}
	fc.u.Obls = append(fc.u.Obls, cover)
	for _, r := range rets {
		fc.lockLeak(fr, r.st, entrySnap)
	}
	for pi, r := range rets {
		vars := map[string]Value{}
		for i, rn := range fr.resultNames {
			if i < len(r.vals) {
				vars[rn] = r.vals[i]
			}
		}
		for _, gu := range con.AtExit {
			ev := fc.newEnv(fr, r.st, entrySnap)
			ev.useEntryParams = true
			for k, v := range vars {
				ev.vars[k] = v
			}
			fc.applyGhostUpdate(ev, r.st, gu)
		}
		for i, en := range con.Ensures {
			ev := fc.newEnv(fr, r.st, entrySnap)
			ev.useEntryParams = true
			for k, v := range vars {
				ev.vars[k] = v
			}
			g := ev.evalBool(en.E)
			label := en.Label
			if label == "" {
				label = fmt.Sprintf("#%d", i+1)
			}
			o := fc.oblige(fr, r.st, "post", label+fmt.Sprintf(".path%d", pi+1), g, fn.Pos(), "postcondition (path "+fmt.Sprint(pi+1)+", return at "+fc.posStr(r.pos)+"): "+en.Src)
			if o != nil {
				fc.modelTerms(o, fr, r.vals, r.st)
			}
			fc.clauseHit[en]++
		}
	}
	for _, ac := range con.AtCalls {
		if ac.After && fc.afterHit[ac] == 0 {
			fc.driftf(fr, "`after call %s` clause attached to no call site", ac.Callee)
		}
		if ac.Assert != nil && fc.clauseHit[ac.Assert] == 0 {
			fc.driftf(fr, "`at call %s` clause attached to no call site", ac.Callee)
		}
	}
}

// lockLeak: a function returns with every lock released that it acquired itself (a lock that its contract requires to
// be held on entry may still be held). A goroutine or handler that returns with a lock held blocks everybody else.
func (fc *FuncCtx) lockLeak(fr *Frame, exit *State, entry *State) {
	seen := map[string]bool{}
	for _, h := range exit.heldLocks {
		if seen[h] {
			continue
		}
		seen[h] = true
		i := strings.LastIndex(h, "|")
		key, ref := h[:i], h[i+1:]
		g := tImp(fc.heldTerm(exit, key, ref), fc.heldTerm(entry, key, ref))
		fc.oblige(fr, exit, "lock.leak", "", g, fr.fn.Pos(), "every lock this function acquired is released when it returns")
	}
}
