package main

import (
	"fmt"
	"go/token"
	"go/types"
	"sort"
	"strings"

	"golang.org/x/tools/go/ssa"
)

type Frame struct {
	id       int
	fn       *ssa.Function
	vals     map[ssa.Value]Value
	con      *Contract // contract supplying loop invariants / at-call clauses for this frame (may be nil)
	top      bool
	defers   []*ssa.Defer
	rets     []*retRec
	prefix   string // obligation name prefix
	entry    *State
	entryVars map[string]Value
	nilChecked map[ssa.Value]bool
	resultNames []string
	noSafety bool // inlined callee without a contract: its own safety is not the caller's obligation
	loopEntry map[int]*State // state on (first) entry of loop k, for atloop(k, e)
}

type retRec struct {
	st   *State
	vals []Value
	pos  token.Pos
}

func (fc *FuncCtx) posStr(p token.Pos) string {
	if !p.IsValid() {
		return ""
	}
	pp := fc.eng.fset.Position(p)
	return fmt.Sprintf("%s:%d", strings.TrimPrefix(pp.Filename, "/repo/"), pp.Line)
}

// oblige records a proof obligation at the current point.
func (fc *FuncCtx) oblige(fr *Frame, st *State, kind, label string, goal string, pos token.Pos, desc string) *Obligation {
	if st.dead {
		return nil
	}
	if fr.noSafety && (strings.HasPrefix(kind, "safety.") || strings.HasPrefix(kind, "lock.")) {
		fc.u.Assumptions["safety of callees executed in-line without a contract is not an obligation of the caller (a panic there ends the caller's path)"] = true
		return nil
	}
	if fr.con != nil && fr.con.Flags["nosafety"] != "" && strings.HasPrefix(kind, "safety.") && !(kind == "safety.close" && fr.con.Flags["safety-close"] != "") && !strings.Contains(","+fr.con.Flags["safety-keep"]+",", ","+strings.TrimPrefix(kind, "safety.")+",") {
		fc.u.Assumptions["safety sweep (nil/index/type-assertion/overflow) is switched off for "+fr.prefix+" (`flag nosafety`): its contract only carries call-site obligations"] = true
		return nil
	}
	base := fr.prefix + "/" + kind
	name := base
	if label != "" {
		name = base + "." + label
	} else {
		fc.ordinals[base]++
		name = fmt.Sprintf("%s#%d", base, fc.ordinals[base])
	}
	// disambiguate repeated labelled names
	fc.ordinals["name:"+name]++
	if n := fc.ordinals["name:"+name]; n > 1 {
		name = fmt.Sprintf("%s@%d", name, n)
	}
	o := &Obligation{Name: name, Kind: kind, Func: fr.prefix, Pos: fc.posStr(pos), LogLen: len(fc.u.Log), Goal: goal, PC: st.pc, Desc: desc, Unit: fc.u, Props: fc.props, Cases: st.cases}
	if goal == "true" || st.pc == "false" {
		o.Structural = true
		o.StructOK = true
		o.Note = "trivial"
	} else if fr.top && strings.HasPrefix(kind, "safety.") && fc.depth == 0 {
		// parameters of the function under contract, for a generated replay of a reachable panic
		fc.modelTerms(o, fr, nil, nil)
	}
	fc.u.Obls = append(fc.u.Obls, o)
	return o
}

// ---------- CFG analysis ----------

type loopInfo struct {
	header  *ssa.BasicBlock
	body    map[*ssa.BasicBlock]bool
	minPos  token.Pos
	ordinal int
}

func analyzeLoops(fn *ssa.Function) map[*ssa.BasicBlock]*loopInfo {
	loops := map[*ssa.BasicBlock]*loopInfo{}
	for _, b := range fn.Blocks {
		for _, s := range b.Succs {
			if s.Dominates(b) {
				li := loops[s]
				if li == nil {
					li = &loopInfo{header: s, body: map[*ssa.BasicBlock]bool{s: true}}
					loops[s] = li
				}
				// natural loop: nodes that reach b without passing through s
				var stack []*ssa.BasicBlock
				if !li.body[b] {
					li.body[b] = true
					stack = append(stack, b)
				}
				for len(stack) > 0 {
					x := stack[len(stack)-1]
					stack = stack[:len(stack)-1]
					for _, p := range x.Preds {
						if !li.body[p] {
							li.body[p] = true
							stack = append(stack, p)
						}
					}
				}
			}
		}
	}
	var lst []*loopInfo
	for _, li := range loops {
		li.minPos = token.Pos(1 << 60)
		for b := range li.body {
			for _, ins := range b.Instrs {
				if _, isDbg := ins.(*ssa.DebugRef); isDbg {
					continue
				}
				if p := ins.Pos(); p.IsValid() && p < li.minPos {
					li.minPos = p
				}
			}
		}
		lst = append(lst, li)
	}
	sort.Slice(lst, func(i, j int) bool {
		if lst[i].minPos != lst[j].minPos {
			return lst[i].minPos < lst[j].minPos
		}
		if len(lst[i].body) != len(lst[j].body) {
			return len(lst[i].body) > len(lst[j].body)
		}
		return lst[i].header.Index < lst[j].header.Index
	})
	for i, li := range lst {
		li.ordinal = i + 1
	}
	return loops
}

func rpo(fn *ssa.Function) []*ssa.BasicBlock {
	seen := map[*ssa.BasicBlock]bool{}
	var post []*ssa.BasicBlock
	var dfs func(b *ssa.BasicBlock)
	dfs = func(b *ssa.BasicBlock) {
		seen[b] = true
		for _, s := range b.Succs {
			if s.Dominates(b) { // back edge
				continue
			}
			if !seen[s] {
				dfs(s)
			}
		}
		post = append(post, b)
	}
	if len(fn.Blocks) > 0 {
		dfs(fn.Blocks[0])
	}
	// also the recover block is ignored
	for i, j := 0, len(post)-1; i < j; i, j = i+1, j-1 {
		post[i], post[j] = post[j], post[i]
	}
	return post
}

// ---------- state merging ----------

func (fc *FuncCtx) mergeStates(ins []*State) *State {
	var live []*State
	for _, s := range ins {
		if !s.dead && s.pc != "false" {
			live = append(live, s)
		}
	}
	if len(live) == 0 {
		if len(ins) > 0 {
			d := ins[0].clone()
			d.dead = true
			d.pc = "false"
			return d
		}
		return &State{pc: "false", dead: true, locals: map[localKey]Value{}, heap: map[string]string{}, ghost: map[string]Value{}}
	}
	if len(live) == 1 {
		return live[0].clone()
	}
	out := live[0].clone()
	var pcs []string
	for _, s := range live {
		pcs = append(pcs, s.pc)
	}
	out.pc = fc.u.define("pc", "Bool", tOr(pcs...))
	out.cases = pcs
	{
		seen := map[string]bool{}
		out.heldLocks = nil
		for _, s := range live {
			for _, h := range s.heldLocks {
				if !seen[h] {
					seen[h] = true
					out.heldLocks = append(out.heldLocks, h)
				}
			}
		}
	}
	// epoch: if they differ, materialise all keys
	sameEpoch := true
	for _, s := range live[1:] {
		if s.epoch != live[0].epoch || len(s.pendingHavoc) != len(live[0].pendingHavoc) {
			sameEpoch = false
		}
	}
	// heap keys
	keys := map[string]bool{}
	for _, s := range live {
		for k := range s.heap {
			keys[k] = true
		}
	}
	var klist []string
	for k := range keys {
		klist = append(klist, k)
	}
	sort.Strings(klist)
	for _, k := range klist {
		var terms []string
		allSame := true
		sortOfK := ""
		for _, s := range live {
			t, ok := s.heap[k]
			if !ok || strings.HasPrefix(t, "?") {
				// need the sort to materialise: find it from a state that has it
				if sortOfK == "" {
					sortOfK = fc.compSort(k)
				}
				if sortOfK == "" {
					t = ""
				} else {
					t = fc.compTerm(s, k, sortOfK)
				}
			}
			terms = append(terms, t)
			if t != terms[0] {
				allSame = false
			}
		}
		if allSame {
			if terms[0] != "" {
				out.heap[k] = terms[0]
			}
			continue
		}
		srt := fc.compSort(k)
		t := terms[len(terms)-1]
		for i := len(terms) - 2; i >= 0; i-- {
			t = tIte(live[i].pc, terms[i], t)
		}
		out.heap[k] = fc.u.define("m!"+clip(k, 30), srt, t)
	}
	if !sameEpoch {
		// all touched keys are now materialised in out; untouched ones get a fresh epoch
		out.epoch = fc.newEpoch()
		out.pendingHavoc = nil
	}
	// locals
	lkeys := map[localKey]bool{}
	for _, s := range live {
		for k := range s.locals {
			lkeys[k] = true
		}
	}
	for k := range lkeys {
		var vals []Value
		for _, s := range live {
			v, ok := s.locals[k]
			if !ok {
				v = nil
			}
			vals = append(vals, v)
		}
		out.locals[k] = fc.mergeValues(pcs, vals, k.a.Type().(*types.Pointer).Elem())
	}
	gkeys := map[string]bool{}
	for _, s := range live {
		for k := range s.ghost {
			gkeys[k] = true
		}
	}
	for k := range gkeys {
		var vals []Value
		for _, s := range live {
			v, ok := s.ghost[k]
			if !ok {
				v = fc.ghostDefault(s, k)
			}
			vals = append(vals, v)
		}
		out.ghost[k] = fc.mergeValues(pcs, vals, nil)
	}
	return out
}

// compSort recovers the sort of a component from its declaration record.
func (fc *FuncCtx) compSort(key string) string {
	return fc.compSorts[key]
}

func (fc *FuncCtx) mergeValues(pcs []string, vals []Value, t types.Type) Value {
	// drop nils (variable not yet initialised on that path)
	var first Value
	for _, v := range vals {
		if v != nil {
			first = v
			break
		}
	}
	if first == nil {
		return nil
	}
	same := true
	for _, v := range vals {
		if v == nil || !valueEqual(v, first) {
			same = false
			break
		}
	}
	if same {
		return first
	}
	switch f := first.(type) {
	case Scalar:
		t := ""
		for i := len(vals) - 1; i >= 0; i-- {
			v := vals[i]
			if v == nil {
				continue
			}
			var vt string
			switch x := v.(type) {
			case Scalar:
				vt = x.T
			case PlaceV:
				if (x.Kind == "obj" || x.Kind == "cell") && len(x.Path) == 0 {
					vt = x.RefTerm
				} else {
					fc.unsupported("merge of interior pointer with scalar")
				}
			default:
				fc.unsupported("merge of %T with scalar", v)
			}
			if t == "" {
				t = vt
			} else {
				t = tIte(pcs[i], vt, t)
			}
		}
		return Scalar{fc.u.define("phi", f.Sort, t), f.Sort, f.Typ}
	case SliceV:
		out := SliceV{Elem: f.Elem}
		comp := func(get func(SliceV) string, sortS string) string {
			t := ""
			for i := len(vals) - 1; i >= 0; i-- {
				if vals[i] == nil {
					continue
				}
				sv, ok := vals[i].(SliceV)
				if !ok {
					fc.unsupported("merge of slice with %T", vals[i])
				}
				if t == "" {
					t = get(sv)
				} else {
					t = tIte(pcs[i], get(sv), t)
				}
			}
			return fc.u.define("phi", sortS, t)
		}
		out.Base = comp(func(s SliceV) string { return s.Base }, "Int")
		out.Off = comp(func(s SliceV) string { return s.Off }, fc.intSort())
		out.Len = comp(func(s SliceV) string { return s.Len }, fc.intSort())
		out.Cap = comp(func(s SliceV) string { return s.Cap }, fc.intSort())
		return out
	case StructV:
		out := StructV{Typ: f.Typ}
		for i := range f.Fields {
			var fv []Value
			for _, v := range vals {
				if v == nil {
					fv = append(fv, nil)
					continue
				}
				sv, ok := v.(StructV)
				if !ok {
					fc.unsupported("merge of struct with %T", v)
				}
				fv = append(fv, sv.Fields[i])
			}
			out.Fields = append(out.Fields, fc.mergeValues(pcs, fv, nil))
		}
		return out
	case TupleV:
		out := TupleV{}
		for i := range f.E {
			var fv []Value
			for _, v := range vals {
				if v == nil {
					fv = append(fv, nil)
					continue
				}
				fv = append(fv, v.(TupleV).E[i])
			}
			out.E = append(out.E, fc.mergeValues(pcs, fv, nil))
		}
		return out
	case PlaceV:
		// pointers: merge as refs when all are whole-object pointers
		t := ""
		for i := len(vals) - 1; i >= 0; i-- {
			v := vals[i]
			if v == nil {
				continue
			}
			var vt string
			switch x := v.(type) {
			case PlaceV:
				if (x.Kind == "obj" || x.Kind == "cell") && len(x.Path) == 0 {
					vt = x.RefTerm
				} else {
					fc.unsupported("merge of different interior pointers")
				}
			case Scalar:
				vt = x.T
			default:
				fc.unsupported("merge of pointer with %T", v)
			}
			if t == "" {
				t = vt
			} else {
				t = tIte(pcs[i], vt, t)
			}
		}
		return Scalar{fc.u.define("phi", "Int", t), "Int", types.NewPointer(f.Typ)}
	case ClosureV:
		fc.unsupported("merge of different closures")
	case UnitV:
		return first
	}
	fc.unsupported("merge of %T", first)
	return nil
}

func valueEqual(a, b Value) bool {
	switch x := a.(type) {
	case Scalar:
		y, ok := b.(Scalar)
		return ok && x.T == y.T
	case SliceV:
		y, ok := b.(SliceV)
		return ok && x.Base == y.Base && x.Off == y.Off && x.Len == y.Len && x.Cap == y.Cap
	case StructV:
		y, ok := b.(StructV)
		if !ok || len(x.Fields) != len(y.Fields) {
			return false
		}
		for i := range x.Fields {
			if !valueEqual(x.Fields[i], y.Fields[i]) {
				return false
			}
		}
		return true
	case TupleV:
		y, ok := b.(TupleV)
		if !ok || len(x.E) != len(y.E) {
			return false
		}
		for i := range x.E {
			if !valueEqual(x.E[i], y.E[i]) {
				return false
			}
		}
		return true
	case PlaceV:
		y, ok := b.(PlaceV)
		if !ok || x.Kind != y.Kind || x.Prefix != y.Prefix || len(x.Idx) != len(y.Idx) || len(x.Path) != len(y.Path) || x.Local != y.Local || x.Global != y.Global {
			return false
		}
		for i := range x.Idx {
			if x.Idx[i] != y.Idx[i] {
				return false
			}
		}
		for i := range x.Path {
			if x.Path[i] != y.Path[i] {
				return false
			}
		}
		return true
	case ClosureV:
		y, ok := b.(ClosureV)
		return ok && x.ID == y.ID
	case UnitV:
		_, ok := b.(UnitV)
		return ok
	case nil:
		return b == nil
	}
	return false
}

// ---------- frame execution ----------

func (fc *FuncCtx) newFrame(fn *ssa.Function, con *Contract, prefix string) *Frame {
	fc.nframe++
	return &Frame{id: fc.nframe, fn: fn, vals: map[ssa.Value]Value{}, con: con, prefix: prefix, nilChecked: map[ssa.Value]bool{}}
}

// execFrame symbolically executes fn from state st with bound parameters; it returns the merged exit state and result values.
func (fc *FuncCtx) execFrame(fr *Frame, st *State) (*State, []Value) {
	fn := fr.fn
	if len(fn.Blocks) == 0 {
		fc.unsupported("function %s has no body", fn.String())
	}
	loops := analyzeLoops(fn)
	order := rpo(fn)
	in := map[*ssa.BasicBlock][]*State{}
	in[fn.Blocks[0]] = []*State{st}
	// collect defer sites
	for _, b := range fn.Blocks {
		for _, ins := range b.Instrs {
			if d, ok := ins.(*ssa.Defer); ok {
				fr.defers = append(fr.defers, d)
				for _, li := range loops {
					if li.body[b] {
						fc.unsupported("defer inside a loop in %s", fn.Name())
					}
				}
			}
		}
	}
	usedLoops := map[int]bool{}
	for _, b := range order {
		ins := in[b]
		if len(ins) == 0 {
			continue
		}
		cur := fc.mergeStates(ins)
		if li, isHeader := loops[b]; isHeader {
			usedLoops[li.ordinal] = true
			cur = fc.enterLoop(fr, li, cur)
		}
		if cur.dead {
			continue
		}
		fc.execBlock(fr, b, cur, loops, in)
	}
	if fr.con != nil {
		for k := range fr.con.Loops {
			if !usedLoops[k] {
				fc.driftf(fr, "loop %d named in the contract does not exist (or is unreachable)", k)
			}
		}
	}
	// merge returns
	if len(fr.rets) == 0 {
		d := st.clone()
		d.dead = true
		d.pc = "false"
		return d, nil
	}
	var sts []*State
	for _, r := range fr.rets {
		sts = append(sts, r.st)
	}
	exit := fc.mergeStates(sts)
	var results []Value
	nres := fn.Signature.Results().Len()
	var pcs []string
	for _, r := range fr.rets {
		pcs = append(pcs, r.st.pc)
	}
	for i := 0; i < nres; i++ {
		var vals []Value
		for _, r := range fr.rets {
			vals = append(vals, r.vals[i])
		}
		results = append(results, fc.mergeValues(pcs, vals, fn.Signature.Results().At(i).Type()))
	}
	return exit, results
}

func (fc *FuncCtx) driftf(fr *Frame, f string, a ...interface{}) {
	msg := fmt.Sprintf(f, a...)
	o := &Obligation{Name: fr.prefix + "/contract-drift", Kind: "contract-drift", Func: fr.prefix, Goal: "false", PC: "true", Desc: msg, Unit: fc.u, Props: fc.props, Structural: true, StructOK: false, Note: msg}
	fc.u.Obls = append(fc.u.Obls, o)
}

// loopSpec: the contract's invariants for the loop plus, for a `range` loop over a slice, the engine's own
// invariant that the hidden index variable is >= -1 (proved like any other invariant: init + preserve).
func (fc *FuncCtx) loopSpec(fr *Frame, li *loopInfo) *LoopSpec {
	key := fmt.Sprintf("%d:%d", fr.id, li.ordinal)
	if sp, ok := fc.loopSpecs[key]; ok {
		return sp
	}
	out := &LoopSpec{}
	if fr.con != nil {
		if sp := fr.con.Loops[li.ordinal]; sp != nil {
			out.Invariants = append(out.Invariants, sp.Invariants...)
		}
	}
	// rangeindex variables updated in this loop's header
	var all []*ssa.Alloc
	for _, b := range fr.fn.Blocks {
		for _, ins := range b.Instrs {
			if a, ok := ins.(*ssa.Alloc); ok && a.Comment == "rangeindex" {
				all = append(all, a)
			}
		}
	}
	for k, a := range all {
		written := false
		for _, ins := range li.header.Instrs {
			if st, ok := ins.(*ssa.Store); ok && st.Addr == a {
				written = true
			}
		}
		if !written {
			continue
		}
		src := fmt.Sprintf("rangeindex#%d >= -1 && rangeindex#%d < 4611686018427387904", k+1, k+1)
		e, err := ParseExpr(src)
		if err == nil {
			out.Invariants = append(out.Invariants, &Clause{Label: "range-index", Src: src, E: e})
		}
	}
	if fc.loopSpecs == nil {
		fc.loopSpecs = map[string]*LoopSpec{}
	}
	fc.loopSpecs[key] = out
	return out
}

func (fc *FuncCtx) enterLoop(fr *Frame, li *loopInfo, cur *State) *State {
	spec := fc.loopSpec(fr, li)
	if len(spec.Invariants) == 0 {
		if fc.autoLoopInv {
			e, _ := ParseExpr("true")
			spec.Invariants = append(spec.Invariants, &Clause{Label: "auto", Src: "true", E: e})
		} else {
			fc.unsupported("loop %d of %s has no invariant in the contract", li.ordinal, fr.prefix)
		}
	}
	pos := li.minPos
	if fr.loopEntry == nil {
		fr.loopEntry = map[int]*State{}
	}
	fr.loopEntry[li.ordinal] = cur.clone()
	// init
	for i, inv := range spec.Invariants {
		ev := fc.newEnv(fr, cur, fr.entry)
		g := ev.evalBool(inv.E)
		label := fmt.Sprintf("%d.inv", li.ordinal)
		if inv.Label != "" {
			label += "." + inv.Label
		} else {
			label += fmt.Sprintf("#%d", i+1)
		}
		fc.oblige(fr, cur, "loop", label+".init", g, pos, "loop invariant holds on entry: "+inv.Src)
		fc.clauseHit[inv]++
	}
	// havoc what the body may modify
	st := cur.clone()
	mod := fc.eng.loopModSet(fr.fn, li)
	// locals
	for a := range mod.locals {
		k := localKey{fr.id, a}
		if _, ok := st.locals[k]; ok {
			st.locals[k] = fc.freshValue(st, a.Type().(*types.Pointer).Elem(), "loop."+a.Comment)
		}
	}
	preAlloc := fc.allocTerm(st)
	if mod.all {
		fc.havocAll(st)
	} else {
		if len(mod.keys) > 0 {
			fc.havocKeys(st, mod.matcher(), "")
		}
		if fo := mod.freshOnly(); len(fo.keys) > 0 {
			fc.havocKeys(st, fo.matcher(), preAlloc)
		}
	}
	if mod.all || mod.allocs {
		fc.bumpAlloc(st)
	}
	if fr.top {
		// call counters of callees that are first called inside the loop exist from here on (else they would keep
		// their default 0 at the loop head instead of being havocked)
		for b := range li.body {
			for _, ins := range b.Instrs {
				var cc *ssa.CallCommon
				pre := ""
				switch x := ins.(type) {
				case *ssa.Call:
					cc = &x.Call
				case *ssa.Defer:
					cc = &x.Call
				case *ssa.Go:
					cc = &x.Call
					pre = "go:"
				}
				if cc == nil {
					continue
				}
				sh, _ := calleeNames(cc)
				if _, ok := st.ghost["$calls:"+pre+sh]; !ok {
					st.ghost["$calls:"+pre+sh] = Scalar{"0", "Int", nil}
				}
			}
		}
	}
	if mod.all || mod.ghost || fr.top {
		for k, v := range st.ghost {
			if k == "$alloc" || strings.HasPrefix(k, "$defer:") {
				continue
			}
			if !strings.HasPrefix(k, "$") && !fc.ghostUpdatedIn(fr, li, k) {
				continue
			}
			if strings.HasPrefix(k, "$calls:") && !callsInLoop(li, strings.TrimPrefix(strings.TrimPrefix(k, "$calls:"), "go:")) {
				continue
			}
			if sc, ok := v.(Scalar); ok {
				nv := Scalar{fc.u.fresh("loop.ghost", sc.Sort), sc.Sort, sc.Typ}
				if strings.HasPrefix(k, "$calls:") || strings.HasPrefix(k, "$ev:") {
					fc.u.fact(st.pc, "(<= "+sc.T+" "+nv.T+")")
				}
				st.ghost[k] = nv
			}
		}
	}
	st.pc = fc.u.define("pc.loop", "Bool", st.pc)
	for _, inv := range spec.Invariants {
		ev := fc.newEnv(fr, st, fr.entry)
		g := ev.evalBool(inv.E)
		fc.u.fact(st.pc, g)
	}
	return st
}

func (fc *FuncCtx) exitLoopBackEdge(fr *Frame, li *loopInfo, st *State, pos token.Pos) {
	spec := fc.loopSpec(fr, li)
	for i, inv := range spec.Invariants {
		ev := fc.newEnv(fr, st, fr.entry)
		g := ev.evalBool(inv.E)
		label := fmt.Sprintf("%d.inv", li.ordinal)
		if inv.Label != "" {
			label += "." + inv.Label
		} else {
			label += fmt.Sprintf("#%d", i+1)
		}
		fc.oblige(fr, st, "loop", label+".preserve", g, pos, "loop invariant preserved by the body: "+inv.Src)
	}
}

func (fc *FuncCtx) execBlock(fr *Frame, b *ssa.BasicBlock, st *State, loops map[*ssa.BasicBlock]*loopInfo, in map[*ssa.BasicBlock][]*State) {
	goTo := func(succ *ssa.BasicBlock, s *State, pos token.Pos) {
		if succ.Dominates(b) {
			// back edge
			if li := loops[succ]; li != nil {
				fc.exitLoopBackEdge(fr, li, s, pos)
			}
			return
		}
		fc.edgePCs[edgeKey{fr.id, b.Index, succ.Index}] = s.pc
		in[succ] = append(in[succ], s)
	}
	for _, ins := range b.Instrs {
		if st.dead {
			return
		}
		switch x := ins.(type) {
		case *ssa.If:
			c := fc.val(fr, st, x.Cond).(Scalar).T
			c = fc.u.define("br", "Bool", c)
			t := st.clone()
			t.pc = fc.u.define("pc", "Bool", tAnd(st.pc, c))
			f := st.clone()
			f.pc = fc.u.define("pc", "Bool", tAnd(st.pc, tNot(c)))
			goTo(b.Succs[0], t, x.Pos())
			goTo(b.Succs[1], f, x.Pos())
			return
		case *ssa.Jump:
			goTo(b.Succs[0], st, lastPos(b))
			return
		case *ssa.Return:
			var vals []Value
			for _, r := range x.Results {
				vals = append(vals, fc.val(fr, st, r))
			}
			fr.rets = append(fr.rets, &retRec{st: st, vals: vals, pos: x.Pos()})
			return
		case *ssa.Panic:
			fc.execPanic(fr, st, x)
			return
		default:
			fc.execInstr(fr, st, ins)
		}
	}
}

func lastPos(b *ssa.BasicBlock) token.Pos {
	for i := len(b.Instrs) - 1; i >= 0; i-- {
		if p := b.Instrs[i].Pos(); p.IsValid() {
			return p
		}
	}
	return token.NoPos
}

func (fc *FuncCtx) execPanic(fr *Frame, st *State, x *ssa.Panic) {
	// a panic is either documented (panics when ...) or an obligation "unreachable"
	allowed := "false"
	if fr.con != nil {
		for _, c := range fr.con.PanicsW {
			ev := fc.newEnv(fr, st, fr.entry)
			ev.useEntryParams = true
			allowed = tOr(allowed, ev.evalBool(c.E))
			fc.clauseHit[c]++
		}
	}
	// compiler-generated "blocking select matched no case"
	if c, ok := x.X.(*ssa.MakeInterface); ok {
		if k, ok := c.X.(*ssa.Const); ok && k.Value != nil && strings.Contains(k.Value.String(), "blocking select matched no case") {
			return
		}
	}
	fc.oblige(fr, st, "safety.panic", "", allowed, x.Pos(), "explicit panic is unreachable (or documented by `panics when`)")
}

// val returns the symbolic value of an SSA value.
func (fc *FuncCtx) val(fr *Frame, st *State, v ssa.Value) Value {
	switch x := v.(type) {
	case *ssa.Const:
		return fc.constValue(x)
	case *ssa.Global:
		gt := x.Type().(*types.Pointer).Elem()
		if _, isArr := gt.Underlying().(*types.Array); isArr {
			// a package-level array is an object at a fixed, pre-allocated reference
			name := qsym("gref!" + globalKey(x))
			if !fc.u.declared[name] {
				fc.u.declared[name] = true
				fc.u.emit("(declare-fun " + name + " () Int)")
				fc.u.emit("(assert (and (< 0 " + name + ") (<= " + name + " alloc0)))")
			}
			return fc.objPlace(name, gt)
		}
		return PlaceV{Kind: "global", Global: x, Typ: gt, Root: gt}
	case *ssa.Function:
		return ClosureV{Fn: x, ID: fc.funcID(x)}
	case *ssa.Builtin:
		return UnitV{}
	}
	if r, ok := fr.vals[v]; ok {
		return r
	}
	fc.unsupported("use of undefined SSA value %s (%T) in %s", v.Name(), v, fr.fn.Name())
	return nil
}

func (fc *FuncCtx) funcID(f *ssa.Function) string {
	name := qsym("fn:" + f.String())
	fc.u.declare(name, "(declare-fun "+name+" () Int)")
	return name
}

// toPlace converts a pointer value to a place; emits a nil-dereference obligation for refs.
func (fc *FuncCtx) toPlace(fr *Frame, st *State, v ssa.Value, pos token.Pos) PlaceV {
	pv := fc.val(fr, st, v)
	pt, ok := v.Type().Underlying().(*types.Pointer)
	if !ok {
		fc.unsupported("toPlace on non-pointer %s", v.Type())
	}
	switch x := pv.(type) {
	case PlaceV:
		return x
	case Scalar:
		if !fr.nilChecked[v] {
			fr.nilChecked[v] = true
			fc.oblige(fr, st, "safety.nil", "", tNot(tEq(x.T, "0")), pos, "pointer "+v.Name()+" dereferenced here is not nil")
		}
		return fc.objPlace(x.T, pt.Elem())
	}
	fc.unsupported("pointer value of kind %T", pv)
	return PlaceV{}
}

// toInt converts an integer-typed scalar to the sort of type `to` (bv: extend/truncate; int: identity).
func (fc *FuncCtx) convInt(x string, from, to types.Type) string {
	if fc.model != "bv" {
		return x
	}
	fw, fs, _ := intInfo(from)
	tw, _, _ := intInfo(to)
	switch {
	case fw == tw:
		return x
	case fw < tw:
		if fs {
			return fmt.Sprintf("((_ sign_extend %d) %s)", tw-fw, x)
		}
		return fmt.Sprintf("((_ zero_extend %d) %s)", tw-fw, x)
	default:
		return fmt.Sprintf("((_ extract %d 0) %s)", tw-1, x)
	}
}

func (fc *FuncCtx) idxTerm(fr *Frame, st *State, v ssa.Value) string {
	sc := fc.val(fr, st, v).(Scalar)
	return fc.convInt(sc.T, v.Type(), types.Typ[types.Int])
}

func (fc *FuncCtx) execInstr(fr *Frame, st *State, ins ssa.Instruction) {
	switch x := ins.(type) {
	case *ssa.DebugRef:
		return
	case *ssa.Alloc:
		et := x.Type().(*types.Pointer).Elem()
		_, isArr := et.Underlying().(*types.Array)
		if isArr && !x.Heap && !arrayElementsUsed(x) {
			// an array variable that is only copied as a whole: an opaque value
			isArr = false
		}
		if x.Heap || isArr {
			ref := fc.newRef(st, "new."+clip(x.Comment, 12))
			if _, isSt := et.Underlying().(*types.Struct); isSt {
				fc.notePrivate(st, et, ref)
			}
			fc.freshRefs[ref] = true
			pl := fc.objPlace(ref, et)
			fc.zeroInit(st, pl, et, ref)
			fr.vals[x] = pl
		} else {
			k := localKey{fr.id, x}
			st.locals[k] = fc.zeroValue(et)
			fr.vals[x] = PlaceV{Kind: "local", Local: k, Root: et, Typ: et}
		}
	case *ssa.Store:
		p := fc.toPlace(fr, st, x.Addr, x.Pos())
		v := fc.val(fr, st, x.Val)
		fc.checkGuard(fr, st, p, x.Pos(), true)
		if p.Kind != "local" {
			fc.publish(st, x.Val.Type())
		}
		fc.storePlace(st, p, v)
	case *ssa.UnOp:
		fr.vals[x] = fc.execUnOp(fr, st, x)
	case *ssa.BinOp:
		fr.vals[x] = fc.execBinOp(fr, st, x)
	case *ssa.FieldAddr:
		p := fc.toPlace(fr, st, x.X, x.Pos())
		stt := p.Typ.Underlying().(*types.Struct)
		f := stt.Field(x.Field)
		if p.Kind == "obj" && len(p.Path) == 0 && strings.HasPrefix(p.Prefix, "O!") && embeddedObject(f.Type()) {
			if _, named := p.Typ.(*types.Named); named {
				gp := p
				gp.Path = []string{f.Name()}
				fc.checkGuard(fr, st, gp, x.Pos(), false)
				fr.vals[x] = fc.objPlace(fc.derivedRef(p.Typ, f.Name(), p.RefTerm), f.Type())
				return
			}
		}
		np := p
		np.Path = append(append([]string(nil), p.Path...), f.Name())
		np.Typ = f.Type()
		np.RefTerm = p.RefTerm
		fr.vals[x] = np
	case *ssa.Field:
		v := fc.val(fr, st, x.X)
		sv, ok := v.(StructV)
		if !ok {
			fc.unsupported("field of opaque struct value %s", x.X.Type())
		}
		fr.vals[x] = sv.Fields[x.Field]
	case *ssa.IndexAddr:
		fr.vals[x] = fc.execIndexAddr(fr, st, x)
	case *ssa.Index:
		fr.vals[x] = fc.execIndex(fr, st, x)
	case *ssa.Slice:
		fr.vals[x] = fc.execSlice(fr, st, x)
	case *ssa.Convert:
		fr.vals[x] = fc.execConvert(fr, st, x)
	case *ssa.ChangeType:
		v := fc.val(fr, st, x.X)
		fr.vals[x] = retype(v, x.Type())
	case *ssa.ChangeInterface:
		fr.vals[x] = retype(fc.val(fr, st, x.X), x.Type())
	case *ssa.MakeInterface:
		fr.vals[x] = fc.execMakeInterface(fr, st, x)
	case *ssa.TypeAssert:
		fr.vals[x] = fc.execTypeAssert(fr, st, x)
	case *ssa.Extract:
		tv, ok := fc.val(fr, st, x.Tuple).(TupleV)
		if !ok {
			fc.unsupported("extract from non-tuple")
		}
		fr.vals[x] = tv.E[x.Index]
	case *ssa.Phi:
		var pcs []string
		var vals []Value
		// edges are in predecessor order; we only have the merged state, so use the recorded
		// per-edge conditions: a Phi in naive form arises from && / ||, whose operands are
		// available as values defined in dominating blocks or constants.
		for i, e := range x.Edges {
			pred := x.Block().Preds[i]
			pcs = append(pcs, fc.edgePC(fr, pred, x.Block()))
			vals = append(vals, fc.valOrNil(fr, st, e))
		}
		fr.vals[x] = fc.mergeValues(pcs, vals, x.Type())
	case *ssa.MakeSlice:
		fr.vals[x] = fc.execMakeSlice(fr, st, x)
	case *ssa.MakeMap:
		fr.vals[x] = fc.execMakeMap(fr, st, x)
	case *ssa.MakeChan:
		fr.vals[x] = fc.execMakeChan(fr, st, x)
	case *ssa.MakeClosure:
		cv := ClosureV{Fn: x.Fn.(*ssa.Function)}
		for _, b := range x.Bindings {
			cv.Bindings = append(cv.Bindings, fc.val(fr, st, b))
		}
		if len(x.Bindings) > 0 {
			st.private = nil // captured variables may hold anything
		}
		cv.ID = fc.u.fresh("closure", "Int")
		fc.u.fact(st.pc, "(> "+cv.ID+" 0)")
		fr.vals[x] = cv
	case *ssa.Lookup:
		fr.vals[x] = fc.execLookup(fr, st, x)
	case *ssa.MapUpdate:
		fc.execMapUpdate(fr, st, x)
	case *ssa.Range:
		fr.vals[x] = fc.execRange(fr, st, x)
	case *ssa.Next:
		fr.vals[x] = fc.execNext(fr, st, x)
	case *ssa.Call:
		fr.vals[x] = fc.execCall(fr, st, x, &x.Call, x.Pos())
	case *ssa.Go:
		fc.execGo(fr, st, x)
	case *ssa.Defer:
		// record the arguments now; run at rundefers
		fc.execDefer(fr, st, x)
	case *ssa.RunDefers:
		fc.execRunDefers(fr, st, x)
	case *ssa.Send:
		fc.execSend(fr, st, x)
	case *ssa.Select:
		fr.vals[x] = fc.execSelect(fr, st, x)
	default:
		fc.unsupported("instruction %T in %s", ins, fr.fn.Name())
	}
}

func (fc *FuncCtx) valOrNil(fr *Frame, st *State, v ssa.Value) (r Value) {
	defer func() {
		if e := recover(); e != nil {
			if _, ok := e.(unsupportedErr); ok {
				r = nil
				return
			}
			panic(e)
		}
	}()
	return fc.val(fr, st, v)
}

func retype(v Value, t types.Type) Value {
	switch x := v.(type) {
	case Scalar:
		x.Typ = t
		return x
	case SliceV:
		if s, ok := t.Underlying().(*types.Slice); ok {
			x.Elem = s.Elem()
		}
		return x
	case StructV:
		x.Typ = t
		return x
	}
	return v
}

// edge path conditions are recorded when edges are taken
func (fc *FuncCtx) edgePC(fr *Frame, from, to *ssa.BasicBlock) string {
	k := edgeKey{fr.id, from.Index, to.Index}
	if pc, ok := fc.edgePCs[k]; ok {
		return pc
	}
	return "false"
}

type edgeKey struct{ frame, from, to int }

// initSyncFields: a freshly allocated struct has unlocked mutexes and Once values that have not run.
func (fc *FuncCtx) initSyncFields(st *State, et types.Type, ref string) {
	stt, ok := et.Underlying().(*types.Struct)
	if !ok {
		return
	}
	for i := 0; i < stt.NumFields(); i++ {
		ft := stt.Field(i).Type()
		n, ok := ft.(*types.Named)
		if !ok || n.Obj().Pkg() == nil || n.Obj().Pkg().Path() != "sync" {
			continue
		}
		var key string
		switch n.Obj().Name() {
		case "Mutex", "RWMutex":
			key = "L!O!" + typeKey(et) + "." + stt.Field(i).Name()
		case "Once":
			key = "ONCE!O!" + typeKey(et) + "." + stt.Field(i).Name()
		default:
			continue
		}
		cur := fc.compTerm(st, key, "(Array Int Bool)")
		fc.setComp(st, key, "(Array Int Bool)", "(store "+cur+" "+ref+" false)")
	}
}

func (fc *FuncCtx) zeroInit(st *State, pl PlaceV, et types.Type, ref string) {
	fc.initSyncFields(st, et, ref)
	if at, ok := et.Underlying().(*types.Array); ok {
		// all elements zero
		fc.zeroElems(st, ref, at.Elem(), "")
		return
	}
	fc.storePlace(st, pl, fc.zeroValue(et))
}

func (fc *FuncCtx) zeroElems(st *State, base string, et types.Type, path string) {
	idxSort := fc.intSort()
	switch u := et.Underlying().(type) {
	case *types.Struct:
		if fc.structIsFlat(et) {
			for i := 0; i < u.NumFields(); i++ {
				fc.zeroElemsLeaf(st, base, et, path+"."+u.Field(i).Name(), u.Field(i).Type())
			}
			return
		}
	}
	_ = idxSort
	fc.zeroElemsLeaf(st, base, et, path, et)
}

func (fc *FuncCtx) zeroElemsLeaf(st *State, base string, rootElem types.Type, path string, lt types.Type) {
	prefix := "E!" + typeKey(rootElem)
	idxSort := fc.intSort()
	setAll := func(key, s, zero string) {
		cur := fc.compTerm(st, key, arraySort([]string{"Int", idxSort}, s))
		fc.setComp(st, key, arraySort([]string{"Int", idxSort}, s), "(store "+cur+" "+base+" ((as const (Array "+idxSort+" "+s+")) "+zero+"))")
	}
	switch u := lt.Underlying().(type) {
	case *types.Slice:
		if !(fc.bytesStr && isByteSlice(lt)) {
			setAll(prefix+path+".base", "Int", "0")
			setAll(prefix+path+".off", idxSort, fc.ilit(0))
			setAll(prefix+path+".len", idxSort, fc.ilit(0))
			setAll(prefix+path+".cap", idxSort, fc.ilit(0))
			return
		}
	case *types.Struct:
		if fc.structIsFlat(lt) {
			for i := 0; i < u.NumFields(); i++ {
				fc.zeroElemsLeaf(st, base, rootElem, path+"."+u.Field(i).Name(), u.Field(i).Type())
			}
			return
		}
	}
	z := fc.zeroValue(lt)
	sc, ok := z.(Scalar)
	if !ok {
		fc.unsupported("zero element of type %s", lt)
	}
	setAll(prefix+path, sc.Sort, sc.T)
}

// ghostUpdatedIn: a declared ghost variable is changed inside a loop only by `at call ... ghost x = e`
// clauses whose call sites lie in the loop body.
func (fc *FuncCtx) ghostUpdatedIn(fr *Frame, li *loopInfo, name string) bool {
	if fr.con == nil {
		return true
	}
	for _, ac := range fr.con.AtCalls {
		for _, g := range ac.Ghost {
			gu, err := parseGhostUpdate(g)
			if err != nil {
				return true
			}
			id, ok := gu.Target.(*EIdent)
			if !ok || id.Name != name {
				continue
			}
			for b := range li.body {
				for _, ins := range b.Instrs {
					var cc *ssa.CallCommon
					switch x := ins.(type) {
					case *ssa.Call:
						cc = &x.Call
					case *ssa.Defer:
						cc = &x.Call
					case *ssa.Go:
						cc = &x.Call
					}
					if cc == nil {
						continue
					}
					s, f := calleeNames(cc)
					if matchCallee(ac.Callee, s, f) {
						return true
					}
				}
			}
		}
	}
	return false
}

func arrayElementsUsed(a *ssa.Alloc) bool {
	if a.Referrers() == nil {
		return true
	}
	for _, r := range *a.Referrers() {
		switch r.(type) {
		case *ssa.IndexAddr, *ssa.Slice:
			return true
		}
	}
	return false
}

func callsInLoop(li *loopInfo, name string) bool {
	for b := range li.body {
		for _, ins := range b.Instrs {
			var cc *ssa.CallCommon
			switch x := ins.(type) {
			case *ssa.Call:
				cc = &x.Call
			case *ssa.Defer:
				cc = &x.Call
			case *ssa.Go:
				cc = &x.Call
			}
			if cc == nil {
				continue
			}
			if s, _ := calleeNames(cc); s == name {
				return true
			}
		}
	}
	return false
}

// ---------- path-by-path execution (contracts with `flag paths`) ----------
// Every path through the loop-cut CFG is executed on its own (no state merging), so the solver never has to
// split cases on merged heap components. Exponential in the number of branches: meant for small functions.

func (fc *FuncCtx) execFramePaths(fr *Frame, st *State) []*retRec {
	fn := fr.fn
	loops := analyzeLoops(fn)
	for _, b := range fn.Blocks {
		for _, ins := range b.Instrs {
			if d, ok := ins.(*ssa.Defer); ok {
				fr.defers = append(fr.defers, d)
				for _, li := range loops {
					if li.body[b] {
						fc.unsupported("defer inside a loop in %s", fn.Name())
					}
				}
			}
		}
	}
	npaths := 0
	usedLoops := map[int]bool{}
	var run func(b, from *ssa.BasicBlock, cur *State, vals map[ssa.Value]Value)
	run = func(b, from *ssa.BasicBlock, cur *State, vals map[ssa.Value]Value) {
		if cur.dead || cur.pc == "false" {
			return
		}
		fr.vals = vals
		if li, isHeader := loops[b]; isHeader {
			usedLoops[li.ordinal] = true
			cur = fc.enterLoop(fr, li, cur)
			if cur.dead {
				return
			}
		}
		for _, ins := range b.Instrs {
			if cur.dead {
				return
			}
			switch x := ins.(type) {
			case *ssa.Phi:
				for i, e := range x.Edges {
					if x.Block().Preds[i] == from {
						vals[x] = fc.val(fr, cur, e)
					}
				}
			case *ssa.If:
				c := fc.val(fr, cur, x.Cond).(Scalar).T
				c = fc.u.define("br", "Bool", c)
				for k, succ := range b.Succs {
					cond := c
					if k == 1 {
						cond = tNot(c)
					}
					ns := cur.clone()
					ns.pc = fc.u.define("pc", "Bool", tAnd(cur.pc, cond))
					if ns.pc == "false" {
						continue
					}
					if succ.Dominates(b) {
						if li := loops[succ]; li != nil {
							fr.vals = vals
							fc.exitLoopBackEdge(fr, li, ns, x.Pos())
						}
						continue
					}
					nv := make(map[ssa.Value]Value, len(vals))
					for kk, vv := range vals {
						nv[kk] = vv
					}
					run(succ, b, ns, nv)
				}
				return
			case *ssa.Jump:
				succ := b.Succs[0]
				if succ.Dominates(b) {
					if li := loops[succ]; li != nil {
						fc.exitLoopBackEdge(fr, li, cur, lastPos(b))
					}
					return
				}
				run(succ, b, cur, vals)
				return
			case *ssa.Return:
				var rv []Value
				for _, r := range x.Results {
					rv = append(rv, fc.val(fr, cur, r))
				}
				npaths++
				if npaths > 256 {
					fc.unsupported("more than 256 paths in %s (drop `flag paths`)", fn.Name())
				}
				fr.rets = append(fr.rets, &retRec{st: cur, vals: rv, pos: x.Pos()})
				return
			case *ssa.Panic:
				fc.execPanic(fr, cur, x)
				return
			default:
				fc.execInstr(fr, cur, ins)
			}
		}
	}
	run(fn.Blocks[0], nil, st, fr.vals)
	if fr.con != nil {
		for k := range fr.con.Loops {
			if !usedLoops[k] {
				fc.driftf(fr, "loop %d named in the contract does not exist (or is unreachable)", k)
			}
		}
	}
	return fr.rets
}
