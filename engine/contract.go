package main

// Parser for contract files: comment-only Go files (//@ lines) in /repo behind
// the build tag "verif", and prelude files (/verif/prelude/*.spec, same
// directives without the //@ prefix) holding the assumed contracts of
// dependencies.

import (
	"crypto/sha256"
	"fmt"
	"regexp"
	"strconv"
	"strings"
)

type Clause struct {
	Label string
	Src   string
	E     Expr
	Line  string // file:line of the clause
	Props []string
}

type LoopSpec struct {
	Invariants []*Clause
	Unroll     int
	Havoc      []string // extra names to havoc (rarely needed)
}

type AtCall struct {
	Callee  string // name as written, matched against callee's Name() / RelString
	Ordinal int    // 0 = every call
	Assert  *Clause
	Assume  *Clause  // only allowed for extern/trusted hints; counted as assumption
	Ghost   []string // ghost updates "x = e"
	After   bool     // `after call F ghost x = e`: applied after the call, results bound to ret0, ret1, ...
}

type GhostUpdate struct {
	Target Expr
	Val    Expr
	Cond   Expr
	Src    string
}

type Contract struct {
	Kind     string // "func", "extern", "interface"
	Pkg      string // package path the contract file belongs to ("" for prelude)
	Key      string // lookup key: for func: RelString in its package; for extern: full ssa name; for interface: "pkg.I.M"
	Recv     *ParamDecl
	Params   []ParamDecl
	Results  []ParamDecl
	Props    []string
	Model    string // "bv" or "int" ("" = inherit package default)
	Strings  string // "opaque" or "smtlib"
	Bytes    string // "" or "smtlib"
	Requires []*Clause
	Assumes  []*Clause // ghost well-formedness: assumed by the body AND at call sites (never an obligation; listed)
	Ensures  []*Clause
	PanicsW  []*Clause
	Assigns  []string
	HasAssigns bool
	Pure     bool
	Loops    map[int]*LoopSpec
	AtCalls  []*AtCall
	AtExit   []*GhostUpdate
	AtEntry  []*GhostUpdate
	Flags    map[string]string // concurrent, inline, trusted, nosafety, ...
	Line     string
	Text     []string // raw text, for hashing
	Known    []string
	Uses     []string
}

func (c *Contract) Hash() string {
	h := sha256.Sum256([]byte(strings.Join(c.Text, "\n")))
	return fmt.Sprintf("%x", h[:6])
}

type SpecFunc struct {
	Name    string
	Params  []ParamDecl
	Result  string
	Body    Expr
	Src     string
	Rec     bool
	Decr    Expr
	Uninterp bool // declared only (no body)
	Heap    bool // reads the heap: the components it reads are implicit parameters (taken from the state it is applied in)
	Pkg     string
	Line    string
}

type GhostDecl struct {
	IsField bool
	Owner   string // type name for fields
	Name    string
	Type    string
	Pkg     string
}

type InvariantDecl struct {
	Type     string // struct type name (in Pkg)
	Guard    string // lock field name, "" if none
	Protects []string
	Recv     string // name used for the object in the expression (default: first letter or "self")
	Clauses  []*Clause
	Assumes  []*Clause // assumed together with the invariant at Lock, never asserted (listed as assumptions)
	Pkg      string
	Props    []string
	Line     string
}

// ChanDecl: `channel T.f carries <expr over value>`: every value sent on the channel held in field f of T satisfies
// the expression (obligation at every send), so every value received from it does (assumed at every receive).
type ChanDecl struct {
	Type  string
	Field string
	Closers []string // `closed by F, G`: the only functions that close the channel held in the field
	E     Expr
	Src   string
	Pkg   string
	Props []string
	Line  string
}

type GuardedDecl struct {
	Type  string
	Field string
	Lock  string // lock field of same struct, or "T2.lock via owner" (not yet)
	Pkg   string
	Props []string
	Line  string
	Mode  string // "lock" or "atomic"
}

type LemmaDecl struct {
	Name   string
	Params []ParamDecl
	Body   *Clause
	Decr   Expr
	Uses   []string
	Axiom  bool
	Why    string
	Pkg    string
	Props  []string
	Model  string
	Strings string
	Line   string
	Induct string // induction hypothesis instantiation: "name(args)" text(s)
	Hyps   []Expr
}

type ContractFile struct {
	Pkg        string
	Path       string
	Contracts  []*Contract
	SpecFuncs  []*SpecFunc
	Ghosts     []*GhostDecl
	Invariants []*InvariantDecl
	ChanDecls  []*ChanDecl
	Guarded    []*GuardedDecl
	Lemmas     []*LemmaDecl
	DefaultModel string
	DefaultStrings string
	Errors     []string
	Globals    []*GlobalFact
	Immutable  []string    // T.f: fields assigned only while their object is being constructed
	Preds      []*SpecFunc // heap-reading predicates, expanded in place (macros over the current state)
	Stateless  [][]string  // `stateless package [props]`: the package keeps no mutable package-level state
}

// GlobalFact: a fact about package-level variables that are assigned only by the package initialiser.
// Proved as a postcondition of init, assumed on entry of every other function of the package.
type GlobalFact struct {
	Clause *Clause
	Props  []string
	Pkg    string
}

var topKeywords = map[string]bool{"immutable": true, "pred": true, "global": true, "spec": true, "ghost": true, "invariant": true, "guarded": true, "channel": true, "lemma": true, "axiom": true, "extern": true, "interface": true, "func": true, "default": true, "stateless": true}
var subKeywords = map[string]bool{"after": true, "assumes": true, "props": true, "model": true, "strings": true, "bytes": true, "requires": true, "ensures": true, "panics": true, "assigns": true, "pure": true, "loop": true, "at": true, "flag": true, "decreases": true, "use": true, "known": true, "hyp": true, "protects": true, "clause": true}

type rawLine struct {
	text string
	loc  string
}

// ParseContractLines parses directive lines (already stripped of the //@ prefix).
func ParseContractLines(pkg, path string, lines []rawLine) *ContractFile {
	cf := &ContractFile{Pkg: pkg, Path: path}
	// group: each directive = keyword line + continuation lines
	type dir struct {
		kw   string
		text string
		loc  string
		top  bool
	}
	var dirs []dir
	for _, l := range lines {
		t := strings.TrimSpace(l.text)
		if t == "" || strings.HasPrefix(t, "--") {
			continue
		}
		first := t
		if i := strings.IndexAny(t, " \t"); i >= 0 {
			first = t[:i]
		}
		if topKeywords[first] || subKeywords[first] {
			dirs = append(dirs, dir{kw: first, text: strings.TrimSpace(t[len(first):]), loc: l.loc, top: topKeywords[first]})
		} else if len(dirs) > 0 {
			dirs[len(dirs)-1].text += " " + t
		} else {
			cf.Errors = append(cf.Errors, l.loc+": stray line "+t)
		}
	}
	errf := func(loc, f string, a ...interface{}) {
		cf.Errors = append(cf.Errors, loc+": "+fmt.Sprintf(f, a...))
	}
	mkClause := func(loc, src string) *Clause {
		label := ""
		src = strings.TrimSpace(src)
		if strings.HasPrefix(src, "{") {
			if j := strings.Index(src, "}"); j > 0 {
				label = strings.TrimSpace(src[1:j])
				src = strings.TrimSpace(src[j+1:])
			}
		}
		e, err := ParseExpr(src)
		if err != nil {
			errf(loc, "%v", err)
			return nil
		}
		return &Clause{Label: label, Src: src, E: e, Line: loc}
	}
	var cur *Contract
	var curInv *InvariantDecl
	var curLemma *LemmaDecl
	var curSpec *SpecFunc
	var curGlobal *GlobalFact
	for _, d := range dirs {
		if d.top {
			cur, curInv, curLemma, curSpec, curGlobal = nil, nil, nil, nil, nil
		}
		switch d.kw {
		case "default":
			f := strings.Fields(d.text)
			if len(f) == 2 && f[0] == "model" {
				cf.DefaultModel = f[1]
			} else if len(f) == 2 && f[0] == "strings" {
				cf.DefaultStrings = f[1]
			} else {
				errf(d.loc, "bad default directive")
			}
		case "immutable":
			cf.Immutable = append(cf.Immutable, splitList(d.text)...)
		case "stateless":
			// stateless package [C10,C14]
			var props []string
			for _, x := range strings.Fields(d.text) {
				if strings.HasPrefix(x, "[") {
					props = strings.Split(strings.Trim(x, "[]"), ",")
				}
			}
			cf.Stateless = append(cf.Stateless, props)
		case "pred":
			// pred name(params) = expr     (boolean; may read fields; expanded at each use in the state of the use)
			t := strings.TrimSpace(d.text)
			op := strings.Index(t, "(")
			cp := matchParen(t, op)
			eq := -1
			if cp > 0 {
				eq = strings.Index(t[cp:], "=")
			}
			if op < 0 || cp < 0 || eq < 0 {
				errf(d.loc, "bad pred")
				continue
			}
			sf := &SpecFunc{Pkg: pkg, Line: d.loc, Name: strings.TrimSpace(t[:op]), Params: parseParams(t[op+1 : cp]), Result: "bool"}
			sf.Src = strings.TrimSpace(t[cp+eq+1:])
			e, err := ParseExpr(sf.Src)
			if err != nil {
				errf(d.loc, "%v", err)
				continue
			}
			sf.Body = e
			cf.Preds = append(cf.Preds, sf)
		case "global":
			if c := mkClause(d.loc, d.text); c != nil {
				gf := &GlobalFact{Clause: c, Pkg: pkg}
				cf.Globals = append(cf.Globals, gf)
				curGlobal = gf
			}
		case "spec":
			// spec func [rec] name(params) type = expr   |  spec func name(params) type   (uninterpreted)
			t := strings.TrimSpace(strings.TrimPrefix(d.text, "func"))
			sf := &SpecFunc{Pkg: pkg, Line: d.loc}
			for {
				if strings.HasPrefix(t, "rec ") {
					sf.Rec = true
					t = strings.TrimSpace(t[4:])
				} else if strings.HasPrefix(t, "heap ") {
					sf.Heap = true
					t = strings.TrimSpace(t[5:])
				} else {
					break
				}
			}
			op := strings.Index(t, "(")
			cp := matchParen(t, op)
			if op < 0 || cp < 0 {
				errf(d.loc, "bad spec func")
				continue
			}
			sf.Name = strings.TrimSpace(t[:op])
			sf.Params = parseParams(t[op+1 : cp])
			rest := strings.TrimSpace(t[cp+1:])
			eq := strings.Index(rest, "=")
			if eq < 0 {
				sf.Result = strings.TrimSpace(rest)
				sf.Uninterp = true
			} else {
				sf.Result = strings.TrimSpace(rest[:eq])
				sf.Src = strings.TrimSpace(rest[eq+1:])
				e, err := ParseExpr(sf.Src)
				if err != nil {
					errf(d.loc, "%v", err)
					continue
				}
				sf.Body = e
			}
			cf.SpecFuncs = append(cf.SpecFuncs, sf)
			curSpec = sf
		case "ghost":
			f := strings.Fields(d.text)
			if len(f) >= 3 && f[0] == "field" {
				dot := strings.LastIndex(f[1], ".")
				if dot < 0 {
					errf(d.loc, "ghost field needs T.name")
					continue
				}
				cf.Ghosts = append(cf.Ghosts, &GhostDecl{IsField: true, Owner: f[1][:dot], Name: f[1][dot+1:], Type: strings.Join(f[2:], " "), Pkg: pkg})
			} else if len(f) >= 3 && f[0] == "var" {
				cf.Ghosts = append(cf.Ghosts, &GhostDecl{Name: f[1], Type: strings.Join(f[2:], " "), Pkg: pkg})
			} else {
				errf(d.loc, "bad ghost declaration")
			}
		case "invariant":
			// invariant T(recv) [guard lock] : expr
			colon := strings.Index(d.text, ":")
			if colon < 0 {
				errf(d.loc, "invariant needs ':'")
				continue
			}
			head := strings.Fields(d.text[:colon])
			inv := &InvariantDecl{Pkg: pkg, Line: d.loc}
			if len(head) == 0 {
				errf(d.loc, "invariant needs a type")
				continue
			}
			tn := head[0]
			if op := strings.Index(tn, "("); op > 0 && strings.HasSuffix(tn, ")") {
				inv.Recv = tn[op+1 : len(tn)-1]
				tn = tn[:op]
			}
			inv.Type = tn
			for i := 1; i < len(head); i++ {
				if head[i] == "guard" && i+1 < len(head) {
					inv.Guard = head[i+1]
					i++
				} else if strings.HasPrefix(head[i], "[") {
					inv.Props = strings.Split(strings.Trim(head[i], "[]"), ",")
				}
			}
			if c := mkClause(d.loc, d.text[colon+1:]); c != nil {
				inv.Clauses = append(inv.Clauses, c)
			}
			cf.Invariants = append(cf.Invariants, inv)
			curInv = inv
		case "clause":
			if curInv != nil {
				if c := mkClause(d.loc, d.text); c != nil {
					curInv.Clauses = append(curInv.Clauses, c)
				}
			} else {
				errf(d.loc, "clause outside invariant")
			}
		case "protects":
			if curInv != nil {
				for _, p := range strings.Split(d.text, ",") {
					curInv.Protects = append(curInv.Protects, strings.TrimSpace(p))
				}
			} else {
				errf(d.loc, "protects outside invariant")
			}
		case "channel":
			// channel T.f carries <expr>
			f := strings.Fields(d.text)
			if bi := strings.Index(d.text, " closed by "); bi > 0 && len(f) >= 4 {
				// channel T.f closed by F[, G]
				dot := strings.LastIndex(f[0], ".")
				if dot < 0 {
					errf(d.loc, "channel needs T.f")
					continue
				}
				cf.ChanDecls = append(cf.ChanDecls, &ChanDecl{Type: f[0][:dot], Field: f[0][dot+1:], Closers: splitList(d.text[bi+11:]), Pkg: pkg, Line: d.loc})
				continue
			}
			ci := strings.Index(d.text, " carries ")
			if len(f) < 3 || ci < 0 {
				errf(d.loc, "bad channel declaration")
				continue
			}
			dot := strings.LastIndex(f[0], ".")
			if dot < 0 {
				errf(d.loc, "channel needs T.f")
				continue
			}
			src := strings.TrimSpace(d.text[ci+9:])
			e, err := ParseExpr(src)
			if err != nil {
				errf(d.loc, "%v", err)
				continue
			}
			cf.ChanDecls = append(cf.ChanDecls, &ChanDecl{Type: f[0][:dot], Field: f[0][dot+1:], E: e, Src: src, Pkg: pkg, Line: d.loc})
		case "guarded":
			// guarded T.f by lock   |  guarded T.f atomic
			f := strings.Fields(d.text)
			if len(f) < 2 {
				errf(d.loc, "bad guarded")
				continue
			}
			if f[0] == "global" && len(f) >= 4 && f[2] == "by" {
				// guarded global x by l
				cf.Guarded = append(cf.Guarded, &GuardedDecl{Type: "global", Field: f[1], Lock: f[3], Mode: "lock", Pkg: pkg, Line: d.loc})
				continue
			}
			dot := strings.LastIndex(f[0], ".")
			g := &GuardedDecl{Type: f[0][:dot], Field: f[0][dot+1:], Pkg: pkg, Line: d.loc}
			if f[1] == "by" && len(f) >= 3 {
				g.Mode = "lock"
				g.Lock = f[2]
			} else if f[1] == "atomic" {
				g.Mode = "atomic"
			} else {
				errf(d.loc, "bad guarded")
				continue
			}
			for _, x := range f[2:] {
				if strings.HasPrefix(x, "[") {
					g.Props = strings.Split(strings.Trim(x, "[]"), ",")
				}
			}
			cf.Guarded = append(cf.Guarded, g)
		case "lemma", "axiom":
			colon := strings.Index(d.text, ":")
			op := strings.Index(d.text, "(")
			if colon < 0 || op < 0 || op > colon {
				errf(d.loc, "lemma needs name(params): expr")
				continue
			}
			cp := matchParen(d.text, op)
			lm := &LemmaDecl{Pkg: pkg, Line: d.loc, Axiom: d.kw == "axiom"}
			lm.Name = strings.TrimSpace(d.text[:op])
			lm.Params = parseParams(d.text[op+1 : cp])
			body := d.text[colon+1:]
			if lm.Axiom {
				if ti := strings.LastIndex(body, " trusted "); ti >= 0 {
					lm.Why = strings.Trim(strings.TrimSpace(body[ti+9:]), "\"")
					body = body[:ti]
				}
			}
			lm.Body = mkClause(d.loc, body)
			cf.Lemmas = append(cf.Lemmas, lm)
			curLemma = lm
		case "extern", "interface", "func":
			c := &Contract{Kind: d.kw, Pkg: pkg, Loops: map[int]*LoopSpec{}, Flags: map[string]string{}, Line: d.loc}
			if err := parseSignature(c, d.text); err != nil {
				errf(d.loc, "%v", err)
				continue
			}
			c.Text = append(c.Text, d.kw+" "+d.text)
			cf.Contracts = append(cf.Contracts, c)
			cur = c
		default:
			// sub-directives
			if curGlobal != nil {
				if d.kw == "props" {
					curGlobal.Props = splitList(d.text)
					continue
				}
				errf(d.loc, "unexpected %q after global", d.kw)
				continue
			}
			if curLemma != nil {
				switch d.kw {
				case "props":
					curLemma.Props = splitList(d.text)
				case "model":
					curLemma.Model = strings.TrimSpace(d.text)
				case "strings":
					curLemma.Strings = strings.TrimSpace(d.text)
				case "decreases":
					e, err := ParseExpr(d.text)
					if err != nil {
						errf(d.loc, "%v", err)
					}
					curLemma.Decr = e
				case "use":
					curLemma.Uses = append(curLemma.Uses, strings.TrimSpace(d.text))
				case "hyp":
					e, err := ParseExpr(d.text)
					if err != nil {
						errf(d.loc, "%v", err)
					} else {
						curLemma.Hyps = append(curLemma.Hyps, e)
					}
				default:
					errf(d.loc, "unexpected %q in lemma", d.kw)
				}
				continue
			}
			if curInv != nil {
				if d.kw == "props" {
					curInv.Props = splitList(d.text)
					continue
				}
				if d.kw == "assumes" {
					if c := mkClause(d.loc, d.text); c != nil {
						curInv.Assumes = append(curInv.Assumes, c)
					}
					continue
				}
				errf(d.loc, "unexpected %q in invariant", d.kw)
				continue
			}
			if curSpec != nil {
				if d.kw == "decreases" {
					e, err := ParseExpr(d.text)
					if err != nil {
						errf(d.loc, "%v", err)
					}
					curSpec.Decr = e
					continue
				}
				errf(d.loc, "unexpected %q in spec func", d.kw)
				continue
			}
			if cur == nil {
				errf(d.loc, "clause %q outside a contract", d.kw)
				continue
			}
			cur.Text = append(cur.Text, d.kw+" "+d.text)
			switch d.kw {
			case "props":
				cur.Props = splitList(d.text)
			case "model":
				cur.Model = strings.TrimSpace(d.text)
			case "strings":
				cur.Strings = strings.TrimSpace(d.text)
			case "bytes":
				cur.Bytes = strings.TrimSpace(d.text)
			case "requires":
				if c := mkClause(d.loc, d.text); c != nil {
					cur.Requires = append(cur.Requires, c)
				}
			case "ensures":
				if c := mkClause(d.loc, d.text); c != nil {
					cur.Ensures = append(cur.Ensures, c)
				}
			case "assumes":
				if c := mkClause(d.loc, d.text); c != nil {
					cur.Assumes = append(cur.Assumes, c)
				}
			case "panics":
				t := strings.TrimSpace(strings.TrimPrefix(strings.TrimSpace(d.text), "when"))
				if c := mkClause(d.loc, t); c != nil {
					cur.PanicsW = append(cur.PanicsW, c)
				}
			case "assigns":
				cur.HasAssigns = true
				cur.Assigns = append(cur.Assigns, splitList(d.text)...)
			case "pure":
				cur.Pure = true
			case "flag":
				for _, f := range strings.Fields(d.text) {
					if eq := strings.Index(f, "="); eq > 0 {
						cur.Flags[f[:eq]] = f[eq+1:]
					} else {
						cur.Flags[f] = "true"
					}
				}
			case "known":
				cur.Known = append(cur.Known, strings.TrimSpace(d.text))
			case "use":
				cur.Uses = append(cur.Uses, strings.TrimSpace(d.text))
			case "loop":
				f := strings.Fields(d.text)
				if len(f) < 2 {
					errf(d.loc, "bad loop clause")
					continue
				}
				k, err := strconv.Atoi(f[0])
				if err != nil {
					errf(d.loc, "bad loop ordinal")
					continue
				}
				ls := cur.Loops[k]
				if ls == nil {
					ls = &LoopSpec{}
					cur.Loops[k] = ls
				}
				rest := strings.TrimSpace(strings.TrimPrefix(strings.TrimSpace(d.text), f[0]))
				switch f[1] {
				case "invariant":
					if c := mkClause(d.loc, strings.TrimSpace(strings.TrimPrefix(rest, "invariant"))); c != nil {
						ls.Invariants = append(ls.Invariants, c)
					}
				case "unroll":
					if len(f) >= 3 {
						ls.Unroll, _ = strconv.Atoi(f[2])
					}
				case "havoc":
					ls.Havoc = append(ls.Havoc, splitList(strings.TrimPrefix(rest, "havoc"))...)
				default:
					errf(d.loc, "bad loop clause %q", f[1])
				}
			case "after":
				// after call F[#i] ghost x = e     (results available as ret0, ret1, ...)
				t := strings.TrimSpace(d.text)
				if !strings.HasPrefix(t, "call ") {
					errf(d.loc, "bad after clause")
					continue
				}
				t = strings.TrimSpace(t[5:])
				sp := strings.IndexAny(t, " \t")
				if sp < 0 {
					errf(d.loc, "bad after clause")
					continue
				}
				callee := t[:sp]
				rest := strings.TrimSpace(t[sp:])
				ac := &AtCall{After: true}
				if h := strings.Index(callee, "#"); h >= 0 {
					ac.Ordinal, _ = strconv.Atoi(callee[h+1:])
					callee = callee[:h]
				}
				ac.Callee = callee
				if !strings.HasPrefix(rest, "ghost ") {
					errf(d.loc, "after call supports only ghost updates")
					continue
				}
				ac.Ghost = append(ac.Ghost, strings.TrimSpace(rest[6:]))
				cur.AtCalls = append(cur.AtCalls, ac)
			case "at":
				// at call F[#i] assert e | at call F[#i] ghost x = e | at exit ghost x = e [if c] | at entry ghost x = e
				t := strings.TrimSpace(d.text)
				if strings.HasPrefix(t, "exit ") || strings.HasPrefix(t, "entry ") {
					isExit := strings.HasPrefix(t, "exit ")
					t = strings.TrimSpace(t[strings.Index(t, " "):])
					t = strings.TrimSpace(strings.TrimPrefix(t, "ghost"))
					gu, err := parseGhostUpdate(t)
					if err != nil {
						errf(d.loc, "%v", err)
						continue
					}
					if isExit {
						cur.AtExit = append(cur.AtExit, gu)
					} else {
						cur.AtEntry = append(cur.AtEntry, gu)
					}
					continue
				}
				if !strings.HasPrefix(t, "call ") {
					errf(d.loc, "bad at clause")
					continue
				}
				t = strings.TrimSpace(t[5:])
				sp := strings.IndexAny(t, " \t")
				if sp < 0 {
					errf(d.loc, "bad at call clause")
					continue
				}
				callee := t[:sp]
				rest := strings.TrimSpace(t[sp:])
				ac := &AtCall{}
				if h := strings.Index(callee, "#"); h >= 0 {
					ac.Ordinal, _ = strconv.Atoi(callee[h+1:])
					callee = callee[:h]
				}
				ac.Callee = callee
				if strings.HasPrefix(rest, "assert ") {
					ac.Assert = mkClause(d.loc, rest[7:])
				} else if strings.HasPrefix(rest, "ghost ") {
					ac.Ghost = append(ac.Ghost, strings.TrimSpace(rest[6:]))
				} else {
					errf(d.loc, "bad at call clause")
					continue
				}
				cur.AtCalls = append(cur.AtCalls, ac)
			default:
				errf(d.loc, "unexpected %q", d.kw)
			}
		}
	}
	return cf
}

func parseGhostUpdate(t string) (*GhostUpdate, error) {
	gu := &GhostUpdate{Src: t}
	if i := strings.LastIndex(t, " if "); i >= 0 {
		c, err := ParseExpr(t[i+4:])
		if err != nil {
			return nil, err
		}
		gu.Cond = c
		t = t[:i]
	}
	eq := indexAssign(t)
	if eq < 0 {
		return nil, fmt.Errorf("ghost update needs '=': %s", t)
	}
	l, err := ParseExpr(t[:eq])
	if err != nil {
		return nil, err
	}
	r, err := ParseExpr(t[eq+1:])
	if err != nil {
		return nil, err
	}
	gu.Target, gu.Val = l, r
	return gu, nil
}

// indexAssign finds a single '=' that is not part of ==, !=, <=, >=, ==>.
func indexAssign(t string) int {
	for i := 0; i < len(t); i++ {
		if t[i] != '=' {
			continue
		}
		if i+1 < len(t) && t[i+1] == '=' {
			i++
			continue
		}
		if i > 0 && (t[i-1] == '!' || t[i-1] == '<' || t[i-1] == '>' || t[i-1] == '=') {
			continue
		}
		return i
	}
	return -1
}

func splitList(s string) []string {
	var out []string
	depth, start := 0, 0
	flush := func(end int) {
		p := strings.TrimSpace(s[start:end])
		if p != "" {
			out = append(out, p)
		}
	}
	for i := 0; i < len(s); i++ {
		switch s[i] {
		case '(', '[':
			depth++
		case ')', ']':
			depth--
		case ',':
			if depth == 0 {
				flush(i)
				start = i + 1
			}
		}
	}
	flush(len(s))
	return out
}

func matchParen(s string, open int) int {
	if open < 0 || open >= len(s) {
		return -1
	}
	depth := 0
	for i := open; i < len(s); i++ {
		switch s[i] {
		case '(':
			depth++
		case ')':
			depth--
			if depth == 0 {
				return i
			}
		}
	}
	return -1
}

func parseParams(s string) []ParamDecl {
	var out []ParamDecl
	depth := 0
	start := 0
	flush := func(end int) {
		p := strings.TrimSpace(s[start:end])
		if p == "" {
			return
		}
		f := strings.Fields(p)
		if len(f) == 1 {
			out = append(out, ParamDecl{Name: f[0]})
		} else {
			out = append(out, ParamDecl{Name: f[0], Type: strings.Join(f[1:], " ")})
		}
	}
	for i := 0; i < len(s); i++ {
		switch s[i] {
		case '(', '[', '{':
			depth++
		case ')', ']', '}':
			depth--
		case ',':
			if depth == 0 {
				flush(i)
				start = i + 1
			}
		}
	}
	flush(len(s))
	// Go style "a, b int": propagate types backwards
	for i := len(out) - 2; i >= 0; i-- {
		if out[i].Type == "" {
			out[i].Type = out[i+1].Type
		}
	}
	return out
}

var reRecv = regexp.MustCompile(`^\(\s*(\w+)\s+(\*?)([\w./]+)\s*\)\s*`)

func parseSignature(c *Contract, text string) error {
	t := strings.TrimSpace(text)
	name := ""
	if c.Kind == "func" && strings.HasPrefix(t, "(") {
		m := reRecv.FindStringSubmatch(t)
		if m == nil {
			return fmt.Errorf("bad receiver in %q", text)
		}
		c.Recv = &ParamDecl{Name: m[1], Type: m[2] + m[3]}
		t = t[len(m[0]):]
		op := strings.Index(t, "(")
		if op < 0 {
			return fmt.Errorf("bad signature %q", text)
		}
		mname := strings.TrimSpace(t[:op])
		if m[2] == "*" {
			name = "(*" + m[3] + ")." + mname
		} else {
			name = "(" + m[3] + ")." + mname
		}
		t = t[op:]
	} else {
		// extern (*sync.Mutex).Lock(m) or io.ReadFull(r, p) or func Name(...) or interface io.Reader.Read(...)
		// find the '(' that starts the parameter list: the last top-level '(' group that is followed by optional results
		if strings.HasPrefix(t, "(") {
			cp := matchParen(t, 0)
			rest := t[cp+1:]
			op := strings.Index(rest, "(")
			if op < 0 {
				return fmt.Errorf("bad signature %q", text)
			}
			name = t[:cp+1] + strings.TrimSpace(rest[:op])
			t = rest[op:]
		} else {
			op := strings.Index(t, "(")
			if op < 0 {
				return fmt.Errorf("bad signature %q", text)
			}
			name = strings.TrimSpace(t[:op])
			t = t[op:]
		}
	}
	cp := matchParen(t, 0)
	if cp < 0 {
		return fmt.Errorf("bad parameter list in %q", text)
	}
	c.Params = parseParams(t[1:cp])
	rest := strings.TrimSpace(t[cp+1:])
	if strings.HasPrefix(rest, "(") {
		rp := matchParen(rest, 0)
		if rp < 0 {
			return fmt.Errorf("bad result list in %q", text)
		}
		c.Results = parseParams(rest[1:rp])
	} else if rest != "" {
		c.Results = []ParamDecl{{Name: "result", Type: rest}}
	}
	c.Key = name
	return nil
}
