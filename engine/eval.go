package main

// Evaluation of contract expressions into SMT terms, against a symbolic state.

import (
	"runtime/debug"
	"os"
	"strconv"
	"fmt"
	"go/constant"
	"go/types"
	"math/big"
	"strings"

	"golang.org/x/tools/go/ssa"
)

type LitV struct{ V *big.Int }

type Env struct {
	fc    *FuncCtx
	st    *State
	old   *State
	vars  map[string]Value
	fr    *Frame
	scope *calleeScope
	pkg   string
	useEntryParams bool
	inOld bool
	monitorAssume bool // evaluating a monitor invariant that is being ASSUMED at Lock
	wantArrayPlace bool // the identifier being evaluated is the base of an index expression
	loopFr *Frame // frame whose loop-entry snapshots atloop() refers to (survives predicate expansion)
}

func (fc *FuncCtx) newEnv(fr *Frame, st, old *State) *Env {
	ev := &Env{fc: fc, st: st, old: old, vars: map[string]Value{}, fr: fr, loopFr: fr, pkg: fc.pkgPath}
	if fr != nil && fr.fn.Pkg != nil {
		ev.pkg = fr.fn.Pkg.Pkg.Path()
	}
	if old == nil {
		ev.old = st
	}
	return ev
}

func (fc *FuncCtx) newEnvVars(st, old *State, vars map[string]Value, sc *calleeScope) *Env {
	ev := &Env{fc: fc, st: st, old: old, vars: map[string]Value{}, scope: sc, pkg: fc.pkgPath}
	for k, v := range vars {
		ev.vars[k] = v
	}
	if sc != nil && sc.con != nil && sc.con.Pkg != "" {
		ev.pkg = sc.con.Pkg
	}
	return ev
}

func (ev *Env) fail(f string, a ...interface{}) {
	ev.fc.unsupported("contract expression: "+f, a...)
}

func (ev *Env) evalBool(e Expr) string {
	if os.Getenv("SFDEBUG") != "" {
		fmt.Fprintf(os.Stderr, "evalBool %s\n", clipStr(e.String(), 200))
	}
	v := ev.eval(e)
	sc, ok := v.(Scalar)
	if !ok || sc.Sort != "Bool" {
		ev.fail("expected a boolean: %s", e.String())
	}
	return sc.T
}

func (ev *Env) cur() *State {
	if ev.inOld {
		return ev.old
	}
	return ev.st
}

// coerce a literal to the sort/type of `like`.
func (ev *Env) litTo(l LitV, like Value) Scalar {
	fc := ev.fc
	if sc, ok := like.(Scalar); ok {
		switch {
		case sc.Sort == "Int":
			return Scalar{intLitStr(l.V), "Int", sc.Typ}
		case strings.HasPrefix(sc.Sort, "(_ BitVec"):
			var w int
			fmt.Sscanf(sc.Sort, "(_ BitVec %d)", &w)
			return Scalar{bvLit(l.V, w), sc.Sort, sc.Typ}
		case sc.Sort == floatSort:
			return Scalar{fmt.Sprintf("((_ to_fp 11 53) RNE %s.0)", l.V.String()), floatSort, sc.Typ}
		}
	}
	return Scalar{fc.intLit(l.V, types.Typ[types.Int]), fc.intSort(), types.Typ[types.Int]}
}

func (ev *Env) asScalar(v Value) Scalar {
	switch x := v.(type) {
	case Scalar:
		return x
	case LitV:
		return ev.litTo(x, nil)
	case PlaceV:
		if (x.Kind == "obj" || x.Kind == "cell") && len(x.Path) == 0 {
			return Scalar{x.RefTerm, "Int", types.NewPointer(x.Typ)}
		}
	case ClosureV:
		return Scalar{x.ID, "Int", nil}
	}
	if os.Getenv("SFDEBUG") == "stack" {
		debug.PrintStack()
	}
	if sv, ok := v.(StructV); ok && sv.Typ != nil {
		ev.fail("expected scalar, got a struct value of type %s", sv.Typ.String())
	}
	ev.fail("expected scalar, got %T", v)
	return Scalar{}
}

func (ev *Env) eval(e Expr) Value {
	fc := ev.fc
	switch x := e.(type) {
	case *ELit:
		switch x.Kind {
		case "bool":
			return Scalar{x.Val, "Bool", types.Typ[types.Bool]}
		case "nil":
			return Scalar{"0", "Int", types.Typ[types.UntypedNil]}
		case "int":
			v := new(big.Int)
			if _, ok := v.SetString(strings.ReplaceAll(x.Val, "_", ""), 0); !ok {
				ev.fail("bad integer literal %s", x.Val)
			}
			return LitV{v}
		case "char":
			v := new(big.Int)
			v.SetString(x.Val, 10)
			return LitV{v}
		case "string":
			return fc.strConst(x.Val, types.Typ[types.String])
		}
	case *EIdent:
		return ev.lookup(x.Name)
	case *EUn:
		if x.Op == "&" {
			pl := ev.evalPlace(x.X)
			if (pl.Kind == "obj" || pl.Kind == "cell") && len(pl.Path) == 0 {
				return Scalar{pl.RefTerm, "Int", types.NewPointer(pl.Typ)}
			}
			return pl
		}
		v := ev.eval(x.X)
		switch x.Op {
		case "*":
			// dereference
			pl, ok := ev.placeOf(v)
			if !ok {
				ev.fail("cannot dereference %s", x.X.String())
			}
			return fc.loadPlace(ev.cur(), pl)
		case "!":
			return Scalar{tNot(ev.asScalar(v).T), "Bool", types.Typ[types.Bool]}
		case "-":
			if l, ok := v.(LitV); ok {
				return LitV{new(big.Int).Neg(l.V)}
			}
			sc := ev.asScalar(v)
			if sc.Sort == "Int" {
				return Scalar{"(- " + sc.T + ")", "Int", sc.Typ}
			}
			return Scalar{"(bvneg " + sc.T + ")", sc.Sort, sc.Typ}
		case "^":
			sc := ev.asScalar(v)
			return Scalar{"(bvnot " + sc.T + ")", sc.Sort, sc.Typ}
		}
	case *EBin:
		return ev.evalBin(x)
	case *ESel:
		return ev.evalSel(x)
	case *EIndex:
		return ev.evalIndex(x)
	case *ESlice:
		return ev.evalSlice(x)
	case *ECall:
		return ev.evalCall(x)
	case *EQuant:
		return ev.evalQuant(x)
	}
	ev.fail("cannot evaluate %s", e.String())
	return nil
}

func (ev *Env) evalQuant(x *EQuant) Value {
	fc := ev.fc
	saved := map[string]Value{}
	var decls []string
	var guards []string
	for _, v := range x.Vars {
		if old, ok := ev.vars[v.Name]; ok {
			saved[v.Name] = old
		}
		t, srt := ev.resolveSpecType(v.Type)
		name := qsym("q!" + v.Name)
		decls = append(decls, "("+name+" "+srt+")")
		ev.vars[v.Name] = Scalar{name, srt, t}
		if t != nil && fc.model == "int" {
			if _, _, ok := intInfo(t); ok && v.Type != "int" {
				guards = append(guards, fc.rangeFact(name, t))
			}
		}
	}
	fc.u.quant++
	body := func() string {
		defer func() { fc.u.quant-- }()
		return ev.evalBool(x.Body)
	}()
	for _, v := range x.Vars {
		delete(ev.vars, v.Name)
	}
	for k, v := range saved {
		ev.vars[k] = v
	}
	g := tAnd(guards...)
	if x.Forall {
		return Scalar{"(forall (" + strings.Join(decls, " ") + ") " + tImp(g, body) + ")", "Bool", types.Typ[types.Bool]}
	}
	return Scalar{"(exists (" + strings.Join(decls, " ") + ") " + tAnd(g, body) + ")", "Bool", types.Typ[types.Bool]}
}

// resolveSpecType: textual type -> (Go type or nil, SMT sort)
func (ev *Env) resolveSpecType(txt string) (types.Type, string) {
	fc := ev.fc
	txt = strings.TrimSpace(txt)
	switch txt {
	case "int":
		return types.Typ[types.Int], fc.intSort()
	case "mathint":
		return nil, "Int"
	case "bool":
		return types.Typ[types.Bool], "Bool"
	case "string":
		return types.Typ[types.String], fc.strSort()
	case "bytes":
		// []byte (the expression grammar has no slice-type syntax); usable as a dynamic-type name in tagis
		return types.NewSlice(types.Universe.Lookup("byte").Type()), "Int"
	case "byte", "uint8":
		return types.Typ[types.Uint8], fc.sortOf(types.Typ[types.Uint8])
	case "uint64":
		return types.Typ[types.Uint64], fc.sortOf(types.Typ[types.Uint64])
	case "int64":
		return types.Typ[types.Int64], fc.sortOf(types.Typ[types.Int64])
	case "uint":
		return types.Typ[types.Uint], fc.sortOf(types.Typ[types.Uint])
	case "uint32":
		return types.Typ[types.Uint32], fc.sortOf(types.Typ[types.Uint32])
	case "int32":
		return types.Typ[types.Int32], fc.sortOf(types.Typ[types.Int32])
	case "uint16":
		return types.Typ[types.Uint16], fc.sortOf(types.Typ[types.Uint16])
	case "float64":
		return types.Typ[types.Float64], floatSort
	case "ref", "any", "error":
		return nil, "Int"
	case "seq":
		// sequence of bytes indexed by int
		return nil, "(Array " + fc.intSort() + " " + fc.sortOf(types.Typ[types.Uint8]) + ")"
	case "intseq":
		return nil, "(Array " + fc.intSort() + " " + fc.intSort() + ")"
	case "refseq":
		return nil, "(Array " + fc.intSort() + " Int)"
	}
	if strings.HasPrefix(txt, "*") {
		t, _ := ev.resolveSpecType(txt[1:])
		if t != nil {
			return types.NewPointer(t), "Int"
		}
		return nil, "Int"
	}
	if strings.HasPrefix(txt, "[]") {
		// slice parameter of a spec function: passed as (base, off, len)
		t, _ := ev.resolveSpecType(txt[2:])
		if t == nil {
			ev.fail("slice of %q is not a Go type", txt[2:])
		}
		return types.NewSlice(t), "SLICE"
	}
	if t := fc.eng.lookupType(ev.pkg, txt); t != nil {
		return t, fc.sortOf(t)
	}
	if t := fc.eng.lookupType(fc.pkgPath, txt); t != nil {
		return t, fc.sortOf(t)
	}
	ev.fail("unknown type %q", txt)
	return nil, ""
}

func (fc *FuncCtx) specSort(txt string) string {
	ev := &Env{fc: fc, pkg: fc.pkgPath, vars: map[string]Value{}}
	_, s := ev.resolveSpecType(txt)
	return s
}

func (ev *Env) lookup(name string) Value {
	fc := ev.fc
	if v, ok := ev.vars[name]; ok {
		return v
	}
	if ev.fr != nil {
		fr := ev.fr
		// entry values of parameters
		if ev.useEntryParams || ev.inOld {
			if v, ok := fr.entryVars[name]; ok {
				return v
			}
		}
		// named results at a return point
		// locals by source name (current value)
		if v, ok := ev.localByName(fr, name); ok {
			return v
		}
		if v, ok := fr.entryVars[name]; ok {
			return v
		}
	}
	// ghost variable
	if g := fc.eng.ghostVar(ev.pkg, name); g != nil {
		st := ev.cur()
		if v, ok := st.ghost[name]; ok {
			return v
		}
		v := fc.ghostDefault(st, name)
		st.ghost[name] = v
		return v
	}
	// package-level object
	if obj := fc.eng.lookupObject(ev.pkg, name); obj != nil {
		return ev.objectValue(obj)
	}
	ev.fail("unknown name %q", name)
	return nil
}

func (ev *Env) objectValue(obj types.Object) Value {
	fc := ev.fc
	switch o := obj.(type) {
	case *types.Const:
		t := o.Type()
		val := o.Val()
		switch {
		case isString(t):
			return fc.strConst(constant.StringVal(val), t)
		case isBool(t):
			if constant.BoolVal(val) {
				return Scalar{"true", "Bool", t}
			}
			return Scalar{"false", "Bool", t}
		}
		if bi, ok := constant.Val(constant.ToInt(val)).(*big.Int); ok {
			if b, isB := t.Underlying().(*types.Basic); isB && b.Info()&types.IsUntyped != 0 {
				return LitV{bi}
			}
			return Scalar{fc.intLit(bi, t), fc.sortOf(t), t}
		}
		if i64, ok := constant.Int64Val(constant.ToInt(val)); ok {
			bi := big.NewInt(i64)
			if b, isB := t.Underlying().(*types.Basic); isB && b.Info()&types.IsUntyped != 0 {
				return LitV{bi}
			}
			return Scalar{fc.intLit(bi, t), fc.sortOf(t), t}
		}
	case *types.Var:
		if g := fc.eng.globalFor(o); g != nil {
			pl := PlaceV{Kind: "global", Global: g, Typ: o.Type(), Root: o.Type()}
			return fc.loadPlace(ev.cur(), pl)
		}
	}
	ev.fail("cannot use package-level object %s", obj.Name())
	return nil
}

// localByName resolves a source-level variable name to the current value of its cell.
func (ev *Env) localByName(fr *Frame, name string) (Value, bool) {
	fc := ev.fc
	want := name
	ord := 0
	if h := strings.Index(name, "#"); h > 0 {
		want = name[:h]
		fmt.Sscanf(name[h+1:], "%d", &ord)
	}
	var cands []*ssa.Alloc
	for _, b := range fr.fn.Blocks {
		for _, ins := range b.Instrs {
			if a, ok := ins.(*ssa.Alloc); ok && a.Comment == want {
				cands = append(cands, a)
			}
		}
	}
	if len(cands) == 0 {
		// parameters that are never re-assigned have no cell in some cases; free variables of closures
		for _, fv := range fr.fn.FreeVars {
			if fv.Name() == want {
				if v, ok := fr.vals[fv]; ok {
					if pl, isP := v.(PlaceV); isP {
						return fc.loadPlace(ev.cur(), pl), true
					}
					if sc, isS := v.(Scalar); isS {
						pt := fv.Type().(*types.Pointer)
						return fc.loadPlace(ev.cur(), fc.objPlace(sc.T, pt.Elem())), true
					}
				}
			}
		}
		return nil, false
	}
	var a *ssa.Alloc
	if ord > 0 {
		if ord > len(cands) {
			ev.fail("no %d-th variable named %s", ord, want)
		}
		a = cands[ord-1]
	} else {
		// prefer the one that is live in the current state (exactly one in most cases)
		var live []*ssa.Alloc
		for _, c := range cands {
			if _, ok := fr.vals[c]; ok {
				live = append(live, c)
			}
		}
		switch {
		case len(live) == 1:
			a = live[0]
		case len(cands) == 1:
			a = cands[0]
		case len(live) == 0:
			return nil, false
		default:
			ev.fail("ambiguous variable name %q (%d candidates): write %s#k", want, len(live), want)
		}
	}
	pv, ok := fr.vals[a]
	if !ok {
		return fc.zeroValue(a.Type().(*types.Pointer).Elem()), true
	}
	if pl, isP := pv.(PlaceV); isP && pl.Kind == "obj" && len(pl.Path) == 0 && ev.wantArrayPlace {
		if _, isArr := pl.Typ.Underlying().(*types.Array); isArr {
			// an array variable that is being indexed: in place (its elements live in the heap under the variable's object)
			return pl, true
		}
	}
	return fc.loadPlace(ev.cur(), pv.(PlaceV)), true
}

func (ev *Env) unify(a, b Value) (Scalar, Scalar) {
	la, aIsLit := a.(LitV)
	lb, bIsLit := b.(LitV)
	switch {
	case aIsLit && bIsLit:
		return ev.litTo(la, nil), ev.litTo(lb, nil)
	case aIsLit:
		sb := ev.asScalar(b)
		return ev.litTo(la, sb), sb
	case bIsLit:
		sa := ev.asScalar(a)
		return sa, ev.litTo(lb, sa)
	}
	sa, sb := ev.asScalar(a), ev.asScalar(b)
	// mixed widths in bv: extend the narrower (spec-level convenience)
	if sa.Sort != sb.Sort && strings.HasPrefix(sa.Sort, "(_ BitVec") && strings.HasPrefix(sb.Sort, "(_ BitVec") {
		var wa, wb int
		fmt.Sscanf(sa.Sort, "(_ BitVec %d)", &wa)
		fmt.Sscanf(sb.Sort, "(_ BitVec %d)", &wb)
		if wa < wb {
			sa = Scalar{fmt.Sprintf("((_ zero_extend %d) %s)", wb-wa, sa.T), sb.Sort, sb.Typ}
		} else {
			sb = Scalar{fmt.Sprintf("((_ zero_extend %d) %s)", wa-wb, sb.T), sa.Sort, sa.Typ}
		}
	}
	return sa, sb
}

func signedOf(sc Scalar) bool {
	if sc.Typ == nil {
		return true
	}
	_, s, ok := intInfo(sc.Typ)
	if !ok {
		return true
	}
	return s
}

func (ev *Env) evalBin(x *EBin) Value {
	fc := ev.fc
	switch x.Op {
	case "&&":
		return Scalar{tAnd(ev.evalBool(x.X), ev.evalBool(x.Y)), "Bool", types.Typ[types.Bool]}
	case "||":
		return Scalar{tOr(ev.evalBool(x.X), ev.evalBool(x.Y)), "Bool", types.Typ[types.Bool]}
	case "==>":
		return Scalar{tImp(ev.evalBool(x.X), ev.evalBool(x.Y)), "Bool", types.Typ[types.Bool]}
	case "<==>":
		return Scalar{tEq(ev.evalBool(x.X), ev.evalBool(x.Y)), "Bool", types.Typ[types.Bool]}
	}
	a := ev.eval(x.X)
	b := ev.eval(x.Y)
	la, aLit := a.(LitV)
	lb, bLit := b.(LitV)
	if aLit && bLit {
		r := new(big.Int)
		switch x.Op {
		case "+":
			return LitV{r.Add(la.V, lb.V)}
		case "-":
			return LitV{r.Sub(la.V, lb.V)}
		case "*":
			return LitV{r.Mul(la.V, lb.V)}
		case "/":
			return LitV{r.Quo(la.V, lb.V)}
		case "%":
			return LitV{r.Rem(la.V, lb.V)}
		case "<<":
			return LitV{r.Lsh(la.V, uint(lb.V.Int64()))}
		case ">>":
			return LitV{r.Rsh(la.V, uint(lb.V.Int64()))}
		case "&":
			return LitV{r.And(la.V, lb.V)}
		case "|":
			return LitV{r.Or(la.V, lb.V)}
		case "^":
			return LitV{r.Xor(la.V, lb.V)}
		}
		cmp := la.V.Cmp(lb.V)
		res := false
		switch x.Op {
		case "==":
			res = cmp == 0
		case "!=":
			res = cmp != 0
		case "<":
			res = cmp < 0
		case "<=":
			res = cmp <= 0
		case ">":
			res = cmp > 0
		case ">=":
			res = cmp >= 0
		}
		return Scalar{fmt.Sprintf("%v", res), "Bool", types.Typ[types.Bool]}
	}
	if x.Op == "==" || x.Op == "!=" {
		var eq string
		_, aSc := a.(Scalar)
		_, bSc := b.(Scalar)
		if (aSc || aLit) && (bSc || bLit) {
			sa, sb := ev.unify(a, b)
			if sa.Sort != sb.Sort {
				ev.fail("comparison of different sorts %s / %s in %s", sa.Sort, sb.Sort, x.String())
			}
			if sa.Sort == floatSort {
				eq = "(fp.eq " + sa.T + " " + sb.T + ")"
			} else {
				eq = tEq(sa.T, sb.T)
			}
		} else {
			eq = fc.valuesEq(ev.cur(), a, b, nil)
		}
		if x.Op == "!=" {
			eq = tNot(eq)
		}
		return Scalar{eq, "Bool", types.Typ[types.Bool]}
	}
	sa, sb := ev.unify(a, b)
	if sa.Sort != sb.Sort && !(x.Op == "<<" || x.Op == ">>") {
		ev.fail("operands of different sorts %s / %s in %s", sa.Sort, sb.Sort, x.String())
	}
	rt := sa.Typ
	if rt == nil {
		rt = sb.Typ
	}
	signed := signedOf(sa) && signedOf(sb)
	if sa.Typ == nil && sb.Typ != nil {
		signed = signedOf(sb)
	}
	if sb.Typ == nil && sa.Typ != nil {
		signed = signedOf(sa)
	}
	isBV := strings.HasPrefix(sa.Sort, "(_ BitVec")
	switch x.Op {
	case "<", "<=", ">", ">=":
		if sa.Sort == floatSort {
			m := map[string]string{"<": "fp.lt", "<=": "fp.leq", ">": "fp.gt", ">=": "fp.geq"}
			return Scalar{"(" + m[x.Op] + " " + sa.T + " " + sb.T + ")", "Bool", types.Typ[types.Bool]}
		}
		if isBV {
			m := map[string]string{"<": "bvult", "<=": "bvule", ">": "bvugt", ">=": "bvuge"}
			if signed {
				m = map[string]string{"<": "bvslt", "<=": "bvsle", ">": "bvsgt", ">=": "bvsge"}
			}
			return Scalar{"(" + m[x.Op] + " " + sa.T + " " + sb.T + ")", "Bool", types.Typ[types.Bool]}
		}
		if sa.Sort == "String" {
			m := map[string]string{"<": "str.<", "<=": "str.<="}
			if op, ok := m[x.Op]; ok {
				return Scalar{"(" + op + " " + sa.T + " " + sb.T + ")", "Bool", types.Typ[types.Bool]}
			}
		}
		return Scalar{"(" + x.Op + " " + sa.T + " " + sb.T + ")", "Bool", types.Typ[types.Bool]}
	}
	if sa.Sort == "String" && x.Op == "+" {
		return Scalar{"(str.++ " + sa.T + " " + sb.T + ")", "String", rt}
	}
	if sa.Sort == "Str" && x.Op == "+" {
		fc.u.declare("strcat", "(declare-fun strcat (Str Str) Str)")
		return Scalar{"(strcat " + sa.T + " " + sb.T + ")", "Str", rt}
	}
	if isBV {
		var r string
		switch x.Op {
		case "+":
			r = "(bvadd " + sa.T + " " + sb.T + ")"
		case "-":
			r = "(bvsub " + sa.T + " " + sb.T + ")"
		case "*":
			r = "(bvmul " + sa.T + " " + sb.T + ")"
		case "/":
			if signed {
				r = "(bvsdiv " + sa.T + " " + sb.T + ")"
			} else {
				r = "(bvudiv " + sa.T + " " + sb.T + ")"
			}
		case "%":
			if signed {
				r = "(bvsrem " + sa.T + " " + sb.T + ")"
			} else {
				r = "(bvurem " + sa.T + " " + sb.T + ")"
			}
		case "&":
			r = "(bvand " + sa.T + " " + sb.T + ")"
		case "|":
			r = "(bvor " + sa.T + " " + sb.T + ")"
		case "^":
			r = "(bvxor " + sa.T + " " + sb.T + ")"
		case "&^":
			r = "(bvand " + sa.T + " (bvnot " + sb.T + "))"
		case "<<":
			r = "(bvshl " + sa.T + " " + ev.shiftCount(sb, sa) + ")"
		case ">>":
			if signed {
				r = "(bvashr " + sa.T + " " + ev.shiftCount(sb, sa) + ")"
			} else {
				r = "(bvlshr " + sa.T + " " + ev.shiftCount(sb, sa) + ")"
			}
		default:
			ev.fail("operator %s", x.Op)
		}
		return Scalar{r, sa.Sort, rt}
	}
	if sa.Sort == "Int" {
		var r string
		switch x.Op {
		case "+":
			r = "(+ " + sa.T + " " + sb.T + ")"
		case "-":
			r = "(- " + sa.T + " " + sb.T + ")"
		case "*":
			r = "(* " + sa.T + " " + sb.T + ")"
		case "/":
			// Go's truncated division (same meaning as in the code)
			r = "(ite (>= " + sa.T + " 0) (ite (> " + sb.T + " 0) (div " + sa.T + " " + sb.T + ") (- (div " + sa.T + " (- " + sb.T + ")))) (ite (> " + sb.T + " 0) (- (div (- " + sa.T + ") " + sb.T + ")) (div (- " + sa.T + ") (- " + sb.T + "))))"
			if l, ok := b.(LitV); ok && l.V.Sign() > 0 {
				r = "(ite (>= " + sa.T + " 0) (div " + sa.T + " " + sb.T + ") (- (div (- " + sa.T + ") " + sb.T + ")))"
			}
		case "%":
			// Go's remainder: sign follows the dividend
			r = "(ite (>= " + sa.T + " 0) (mod " + sa.T + " " + sb.T + ") (- (mod (- " + sa.T + ") " + sb.T + ")))"
		case "<<":
			if l, ok := b.(LitV); ok {
				r = fmt.Sprintf("(* %s %s)", sa.T, new(big.Int).Lsh(big.NewInt(1), uint(l.V.Int64())).String())
			} else {
				ev.fail("shift by non-literal in model int")
			}
		case ">>":
			if l, ok := b.(LitV); ok {
				r = fmt.Sprintf("(div %s %s)", sa.T, new(big.Int).Lsh(big.NewInt(1), uint(l.V.Int64())).String())
			} else {
				ev.fail("shift by non-literal in model int")
			}
		case "&":
			if l, ok := b.(LitV); ok && l.V.Sign() > 0 && new(big.Int).And(l.V, new(big.Int).Add(l.V, big.NewInt(1))).Sign() == 0 {
				r = fmt.Sprintf("(mod %s %s)", sa.T, new(big.Int).Add(l.V, big.NewInt(1)).String())
			} else {
				ev.fail("bitwise & in model int")
			}
		default:
			ev.fail("operator %s in model int", x.Op)
		}
		return Scalar{r, "Int", rt}
	}
	if sa.Sort == floatSort {
		m := map[string]string{"+": "fp.add RNE", "-": "fp.sub RNE", "*": "fp.mul RNE", "/": "fp.div RNE"}
		if op, ok := m[x.Op]; ok {
			return Scalar{"(" + op + " " + sa.T + " " + sb.T + ")", floatSort, rt}
		}
	}
	ev.fail("operator %s on sort %s", x.Op, sa.Sort)
	return nil
}

func (ev *Env) shiftCount(cnt, like Scalar) string {
	if cnt.Sort == like.Sort {
		return cnt.T
	}
	var wc, wl int
	fmt.Sscanf(cnt.Sort, "(_ BitVec %d)", &wc)
	fmt.Sscanf(like.Sort, "(_ BitVec %d)", &wl)
	if wc < wl {
		return fmt.Sprintf("((_ zero_extend %d) %s)", wl-wc, cnt.T)
	}
	return fmt.Sprintf("((_ extract %d 0) %s)", wl-1, cnt.T)
}

// pointee place of a pointer-valued Value
func (ev *Env) placeOf(v Value) (PlaceV, bool) {
	switch x := v.(type) {
	case PlaceV:
		return x, true
	case Scalar:
		if x.Typ != nil {
			if pt, ok := x.Typ.Underlying().(*types.Pointer); ok {
				return ev.fc.objPlace(x.T, pt.Elem()), true
			}
		}
	}
	return PlaceV{}, false
}

func (ev *Env) evalSel(x *ESel) Value {
	fc := ev.fc
	// package-qualified name?
	if id, ok := x.X.(*EIdent); ok {
		if _, isVar := ev.vars[id.Name]; !isVar {
			if obj := fc.eng.lookupQualified(ev.pkg, id.Name, x.Name); obj != nil {
				// make sure it is not shadowed by a local
				shadow := false
				if ev.fr != nil {
					if _, ok := ev.localByNameQuiet(ev.fr, id.Name); ok {
						shadow = true
					}
					if _, ok := ev.fr.entryVars[id.Name]; ok {
						shadow = true
					}
				}
				if !shadow {
					return ev.objectValue(obj)
				}
			}
		}
	}
	base := ev.eval(x.X)
	// ghost field?
	if g := fc.eng.ghostField(ev.pkg, x.Name, base); g != nil {
		var ref string
		if sv, isSl := base.(SliceV); isSl {
			ref = sv.Base
		} else {
			ref = ev.asScalar(base).T
		}
		_, srt := ev.resolveSpecType(g.Type)
		key := "X!" + g.Owner + "." + g.Name
		t := tSel(fc.compTerm(ev.cur(), key, "(Array Int "+srt+")"), ref)
		gt, _ := ev.resolveSpecType(g.Type)
		return Scalar{t, srt, gt}
	}
	switch b := base.(type) {
	case StructV:
		stt := b.Typ.Underlying().(*types.Struct)
		for i := 0; i < stt.NumFields(); i++ {
			if stt.Field(i).Name() == x.Name {
				return b.Fields[i]
			}
		}
		ev.fail("no field %s in %s", x.Name, b.Typ)
	case SliceV:
		switch x.Name {
		case "base":
			return Scalar{b.Base, "Int", nil}
		case "off":
			return Scalar{b.Off, fc.intSort(), types.Typ[types.Int]}
		}
	}
	pl, ok := ev.placeOf(base)
	if !ok {
		ev.fail("selector .%s on non-struct value (%T) in %s", x.Name, base, x.String())
	}
	stt, ok := pl.Typ.Underlying().(*types.Struct)
	if !ok {
		ev.fail("selector .%s on pointer to non-struct %s", x.Name, pl.Typ)
	}
	for i := 0; i < stt.NumFields(); i++ {
		f := stt.Field(i)
		if f.Name() == x.Name {
			if pl.Kind == "obj" && len(pl.Path) == 0 && strings.HasPrefix(pl.Prefix, "O!") && embeddedObject(f.Type()) {
				if _, named := pl.Typ.(*types.Named); named {
					return fc.loadPlace(ev.cur(), fc.objPlace(fc.derivedRef(pl.Typ, f.Name(), pl.RefTerm), f.Type()))
				}
			}
			np := pl
			np.Path = append(append([]string(nil), pl.Path...), f.Name())
			np.Typ = f.Type()
			return fc.loadPlace(ev.cur(), np)
		}
	}
	// promoted fields through embedded structs
	for i := 0; i < stt.NumFields(); i++ {
		f := stt.Field(i)
		if f.Embedded() {
			inner := &ESel{X: &ESel{X: x.X, Name: f.Name()}, Name: x.Name}
			var res Value
			func() {
				defer func() {
					if r := recover(); r != nil {
						if _, ok := r.(unsupportedErr); ok {
							res = nil
							return
						}
						panic(r)
					}
				}()
				res = ev.evalSel(inner)
			}()
			if res != nil {
				return res
			}
		}
	}
	ev.fail("no field %s in %s", x.Name, pl.Typ)
	return nil
}

func (ev *Env) localByNameQuiet(fr *Frame, name string) (v Value, ok bool) {
	defer func() {
		if r := recover(); r != nil {
			if _, isU := r.(unsupportedErr); isU {
				v, ok = nil, true // ambiguous means it exists
				return
			}
			panic(r)
		}
	}()
	return ev.localByName(fr, name)
}

func (ev *Env) idx(v Value) string {
	fc := ev.fc
	if l, ok := v.(LitV); ok {
		return fc.intLit(l.V, types.Typ[types.Int])
	}
	sc := ev.asScalar(v)
	if sc.Sort == fc.intSort() {
		return sc.T
	}
	if sc.Typ != nil {
		return fc.convInt(sc.T, sc.Typ, types.Typ[types.Int])
	}
	return sc.T
}

func (ev *Env) evalIndex(x *EIndex) Value {
	fc := ev.fc
	_, isIdent := x.X.(*EIdent)
	ev.wantArrayPlace = isIdent
	base := ev.eval(x.X)
	ev.wantArrayPlace = false
	iv := ev.eval(x.I)
	switch b := base.(type) {
	case SliceV:
		i := ev.idx(iv)
		pl := fc.elemPlace(b.Base, fc.elemIdx(b.Off, i), b.Elem)
		return fc.loadPlace(ev.cur(), pl)
	case Scalar:
		if strings.HasPrefix(b.Sort, "(Array ") {
			// ghost sequence
			var is Scalar
			if l, ok := iv.(LitV); ok {
				is = Scalar{fc.intLit(l.V, types.Typ[types.Int]), fc.intSort(), nil}
			} else {
				is = ev.asScalar(iv)
			}
			elemSort := arrayElemSort(b.Sort)
			var et types.Type
			if elemSort == fc.sortOf(types.Typ[types.Uint8]) && elemSort != "Int" {
				et = types.Typ[types.Uint8]
			}
			return Scalar{"(select " + b.T + " " + is.T + ")", elemSort, et}
		}
		if b.Sort == "String" || b.Sort == "Str" {
			return fc.strAt(ev.cur(), b.T, ev.idx(iv))
		}
		if b.Typ != nil {
			switch u := b.Typ.Underlying().(type) {
			case *types.Map:
				mk := fc.mapKeys(u)
				var k string
				if l, ok := iv.(LitV); ok {
					k = fc.intLit(l.V, u.Key())
				} else {
					k = fc.keyTerm(ev.cur(), iv, u.Key())
				}
				// Go semantics: a missing key (or a nil map) yields the zero value
				stored := fc.loadAt(ev.cur(), mk.val, []string{b.T, k}, []string{"Int", mk.ksort}, "", u.Elem())
				if _, isSc := stored.(Scalar); !isSc {
					return stored
				}
				has := tAnd(tNot(tEq(b.T, "0")), fc.mapHas(ev.cur(), mk, b.T, k))
				return fc.mergeValues([]string{has, tNot(has)}, []Value{stored, fc.zeroValue(u.Elem())}, u.Elem())
			case *types.Pointer:
				if at, ok := u.Elem().Underlying().(*types.Array); ok {
					pl := fc.elemPlace(b.T, ev.idx(iv), at.Elem())
					return fc.loadPlace(ev.cur(), pl)
				}
			}
		}
	case PlaceV:
		if at, ok := b.Typ.Underlying().(*types.Array); ok && b.Kind == "obj" && len(b.Path) == 0 {
			pl := fc.elemPlace(b.RefTerm, ev.idx(iv), at.Elem())
			return fc.loadPlace(ev.cur(), pl)
		}
	}
	ev.fail("cannot index %s (%T %+v)", x.X.String(), base, base)
	return nil
}

func arrayElemSort(s string) string {
	// "(Array I E)" -> E ; I may itself be parenthesised
	inner := strings.TrimSuffix(strings.TrimPrefix(s, "(Array "), ")")
	depth := 0
	for i := 0; i < len(inner); i++ {
		switch inner[i] {
		case '(':
			depth++
		case ')':
			depth--
		case ' ':
			if depth == 0 {
				return inner[i+1:]
			}
		}
	}
	return inner
}

func (ev *Env) evalSlice(x *ESlice) Value {
	fc := ev.fc
	base := ev.eval(x.X)
	switch b := base.(type) {
	case Scalar:
		if b.Sort == "String" {
			lo := "0"
			if x.Lo != nil {
				lo = ev.idx(ev.eval(x.Lo))
			}
			hi := "(str.len " + b.T + ")"
			if x.Hi != nil {
				hi = ev.idx(ev.eval(x.Hi))
			}
			return Scalar{"(str.substr " + b.T + " " + lo + " (- " + hi + " " + lo + "))", "String", b.Typ}
		}
	case SliceV:
		lo := fc.ilit(0)
		if x.Lo != nil {
			lo = ev.idx(ev.eval(x.Lo))
		}
		hi := b.Len
		if x.Hi != nil {
			hi = ev.idx(ev.eval(x.Hi))
		}
		return SliceV{Base: b.Base, Off: fc.iadd(b.Off, lo), Len: fc.isub(hi, lo), Cap: fc.isub(b.Cap, lo), Elem: b.Elem}
	}
	ev.fail("cannot slice %s", x.X.String())
	return nil
}

func (ev *Env) evalCall(x *ECall) Value {
	fc := ev.fc
	name := ""
	if id, ok := x.Fun.(*EIdent); ok {
		name = id.Name
	}
	arg := func(i int) Value {
		if i >= len(x.Args) {
			ev.fail("%s: missing argument %d", name, i)
		}
		return ev.eval(x.Args[i])
	}
	switch name {
	case "old":
		saved := ev.inOld
		ev.inOld = true
		v := arg(0)
		ev.inOld = saved
		return v
	case "entry":
		saved, savedE := ev.inOld, ev.useEntryParams
		ev.inOld, ev.useEntryParams = true, true
		v := arg(0)
		ev.inOld, ev.useEntryParams = saved, savedE
		return v
	case "atloop":
		// atloop(k, e): e evaluated in the HEAP in which loop k of this function was entered (current locals)
		if len(x.Args) != 2 || ev.loopFr == nil {
			ev.fail("atloop(k, e) needs a loop ordinal and an expression")
		}
		lit, ok := x.Args[0].(*ELit)
		if !ok || lit.Kind != "int" {
			ev.fail("atloop: first argument must be a literal loop ordinal")
		}
		k, _ := strconv.Atoi(lit.Val)
		snap := ev.loopFr.loopEntry[k]
		if snap == nil {
			ev.fail("atloop(%d, ...): loop %d has not been entered on this path", k, k)
		}
		// the heap as it was when the loop was entered; locals, ghosts and bound variables keep their current values
		hy := snap.clone()
		cur := ev.cur()
		hy.locals, hy.ghost, hy.pc = cur.locals, cur.ghost, cur.pc
		savedSt, savedOld, savedIn := ev.st, ev.old, ev.inOld
		ev.st, ev.old, ev.inOld = hy, hy, false
		v := ev.eval(x.Args[1])
		ev.st, ev.old, ev.inOld = savedSt, savedOld, savedIn
		return v
	case "len", "cap":
		v := arg(0)
		switch b := v.(type) {
		case SliceV:
			if name == "len" {
				return Scalar{b.Len, fc.intSort(), types.Typ[types.Int]}
			}
			return Scalar{b.Cap, fc.intSort(), types.Typ[types.Int]}
		case Scalar:
			if b.Sort == "String" || b.Sort == "Str" {
				return Scalar{fc.strLen(b.T), "Int", types.Typ[types.Int]}
			}
			if b.Typ != nil {
				if mt, ok := b.Typ.Underlying().(*types.Map); ok {
					mk := fc.mapKeys(mt)
					return Scalar{tIte(tEq(b.T, "0"), "0", fc.mapLen(ev.cur(), mk, b.T)), "Int", types.Typ[types.Int]}
				}
			}
		}
		ev.fail("len of %s", x.Args[0].String())
	case "has":
		m := ev.asScalar(arg(0))
		mt, ok := m.Typ.Underlying().(*types.Map)
		if !ok {
			ev.fail("has() on non-map")
		}
		mk := fc.mapKeys(mt)
		kv := arg(1)
		var k string
		if l, isL := kv.(LitV); isL {
			k = fc.intLit(l.V, mt.Key())
		} else {
			k = fc.keyTerm(ev.cur(), kv, mt.Key())
		}
		return Scalar{tAnd(tNot(tEq(m.T, "0")), fc.mapHas(ev.cur(), mk, m.T, k)), "Bool", types.Typ[types.Bool]}
	case "ite":
		c := ev.evalBool(x.Args[0])
		a, b := arg(1), arg(2)
		_, aSc := a.(Scalar)
		_, aL := a.(LitV)
		if aSc || aL {
			sa, sb := ev.unify(a, b)
			return Scalar{tIte(c, sa.T, sb.T), sa.Sort, sa.Typ}
		}
		return fc.mergeValues([]string{c, tNot(c)}, []Value{a, b}, nil)
	case "fresh":
		v := arg(0)
		var ref string
		switch b := v.(type) {
		case SliceV:
			ref = b.Base
		default:
			ref = ev.asScalar(v).T
		}
		return Scalar{"(> " + ref + " " + fc.allocTerm(ev.old) + ")", "Bool", types.Typ[types.Bool]}
	case "allocated":
		// allocated(x): the reference x was allocated no later than the state in which this is evaluated
		v := arg(0)
		var ref string
		switch b := v.(type) {
		case SliceV:
			ref = b.Base
		default:
			ref = ev.asScalar(v).T
		}
		t := "(and (<= 0 " + ref + ") (<= " + ref + " " + fc.allocTerm(ev.cur()) + "))"
		if ev.monitorAssume {
			// shared state cannot refer to objects this activation allocated and has not published yet
			if sc, ok := v.(Scalar); ok && sc.Typ != nil {
				if pt, isPtr := sc.Typ.Underlying().(*types.Pointer); isPtr {
					for _, r := range ev.cur().private[typeKey(pt.Elem())] {
						t = tAnd(t, tNot(tEq(ref, r)))
					}
				}
			}
		}
		return Scalar{t, "Bool", types.Typ[types.Bool]}
	case "oncedone":
		var v Value
		if u, isAddr := x.Args[0].(*EUn); isAddr && u.Op == "&" {
			v = ev.evalPlace(u.X)
		} else {
			v = arg(0)
		}
		key, ref, _, _ := fc.lockKey(v)
		key = "ONCE!" + strings.TrimPrefix(key, "L!")
		return Scalar{"(select " + fc.compTerm(ev.cur(), key, "(Array Int Bool)") + " " + ref + ")", "Bool", types.Typ[types.Bool]}
	case "held":
		var v Value
		if u, isAddr := x.Args[0].(*EUn); isAddr && u.Op == "&" {
			v = ev.evalPlace(u.X)
		} else {
			v = arg(0)
		}
		key, ref, _, _ := fc.lockKey(v)
		return Scalar{fc.heldTerm(ev.cur(), key, ref), "Bool", types.Typ[types.Bool]}
	case "closed":
		ch := ev.asScalar(arg(0))
		return Scalar{"(select " + fc.compTerm(ev.cur(), "CH!closed", "(Array Int Bool)") + " " + ch.T + ")", "Bool", types.Typ[types.Bool]}
	case "sends", "recvs", "closes":
		ch := ev.asScalar(arg(0))
		return Scalar{"(select " + fc.compTerm(ev.cur(), "CH!"+name, "(Array Int Int)") + " " + ch.T + ")", "Int", nil}
	case "chancap":
		ch := ev.asScalar(arg(0))
		return Scalar{"(select " + fc.compTerm(ev.cur(), "CH!cap", "(Array Int Int)") + " " + ch.T + ")", "Int", nil}
	case "spawns":
		if ev.scope != nil {
			ev.fail("spawns() counts events of the callee's own activation and cannot be used at a call site")
		}
		// spawns(F): number of `go F(...)` statements executed
		nm := x.Args[0].String()
		st := ev.cur()
		if v, ok := st.ghost["$calls:go:"+nm]; ok {
			return v
		}
		return Scalar{"0", "Int", nil}
	case "calls":
		if ev.scope != nil {
			ev.fail("calls() counts events of the callee's own activation and cannot be used at a call site")
		}
		id, ok := x.Args[0].(*EIdent)
		nm := ""
		if ok {
			nm = id.Name
		} else {
			nm = x.Args[0].String()
		}
		st := ev.cur()
		if v, ok := st.ghost["$calls:"+nm]; ok {
			return v
		}
		return Scalar{"0", "Int", nil}
	case "inv":
		// inv(x): all declared invariant clauses of x's struct type hold for the object x points to
		v := ev.asScalar(arg(0))
		if v.Typ == nil {
			ev.fail("inv(): untyped argument")
		}
		pt, ok := v.Typ.Underlying().(*types.Pointer)
		if !ok {
			ev.fail("inv(): argument is not a pointer")
		}
		var cs []string
		for _, inv := range fc.eng.invariants {
			t := fc.eng.lookupType(inv.Pkg, inv.Type)
			if t == nil || !types.Identical(t, pt.Elem()) {
				continue
			}
			for _, cl := range inv.Clauses {
				ie := fc.invEnv(ev.cur(), inv, pt.Elem(), v.T)
				ie.old = ev.old
				cs = append(cs, ie.evalBool(cl.E))
			}
		}
		if len(cs) == 0 {
			ev.fail("inv(): no invariant declared for %s", pt.Elem())
		}
		return Scalar{tAnd(cs...), "Bool", types.Typ[types.Bool]}
	case "unbox":
		// unbox(x, T): the value of dynamic type T held by interface value x
		v := ev.asScalar(arg(0))
		tn := x.Args[1].String()
		t, _ := ev.resolveSpecType(tn)
		if t == nil {
			ev.fail("unbox: unknown type %s", tn)
		}
		if sv, ok := fc.boxedStructs[v.T+"|"+shortType(t)]; ok {
			return sv
		}
		if _, isStruct := t.Underlying().(*types.Struct); isStruct {
			ev.fail("unbox(%s, %s): the interface value was not built from a struct literal in this activation", x.Args[0].String(), tn)
		}
		srt := fc.sortOf(t)
		if pay, ok := fc.boxed[v.T+"|"+shortType(t)]; ok {
			return Scalar{pay, srt, t}
		}
		_, un := fc.boxFn(t, srt)
		return Scalar{"(" + un + " " + v.T + ")", srt, t}
	case "tagis":
		// tagis(x, T): dynamic type of interface value x is T
		v := ev.asScalar(arg(0))
		tn := x.Args[1].String()
		t, _ := ev.resolveSpecType(tn)
		if t == nil {
			ev.fail("tagis: unknown type %s", tn)
		}
		fc.declIface()
		return Scalar{"(and (not (= " + v.T + " 0)) (= (tagof " + v.T + ") " + fc.typeTag(t) + "))", "Bool", types.Typ[types.Bool]}
	case "int", "int64", "uint64", "byte", "uint8", "uint32", "int32", "uint", "uint16":
		v := arg(0)
		to, _ := ev.resolveSpecType(name)
		if l, ok := v.(LitV); ok {
			return Scalar{fc.intLit(l.V, to), fc.sortOf(to), to}
		}
		sc := ev.asScalar(v)
		if sc.Sort == "Int" {
			return Scalar{sc.T, "Int", to}
		}
		from := sc.Typ
		if from == nil {
			from = types.Typ[types.Int]
		}
		return Scalar{fc.convInt(sc.T, from, to), fc.sortOf(to), to}
	case "float64":
		v := arg(0)
		if l, ok := v.(LitV); ok {
			return Scalar{fmt.Sprintf("((_ to_fp 11 53) RNE %s.0)", l.V.String()), floatSort, types.Typ[types.Float64]}
		}
		sc := ev.asScalar(v)
		if signedOf(sc) {
			return Scalar{"((_ to_fp 11 53) RNE " + sc.T + ")", floatSort, types.Typ[types.Float64]}
		}
		return Scalar{"((_ to_fp_unsigned 11 53) RNE " + sc.T + ")", floatSort, types.Typ[types.Float64]}
	case "string":
		v := arg(0)
		if sv, ok := v.(SliceV); ok {
			return fc.stringOfBytes(ev.cur(), sv, types.Typ[types.String])
		}
		return v
	case "base":
		v := arg(0)
		if sv, ok := v.(SliceV); ok {
			return Scalar{sv.Base, "Int", nil}
		}
		ev.fail("base() of non-slice")
	case "prefixof", "suffixof", "contains", "indexof", "substr", "chr":
		if fc.strmode != "smtlib" {
			ev.fail("%s needs `strings smtlib`", name)
		}
		return ev.evalStrFn(name, x, arg)
	}
	if pd := fc.eng.predFor(ev.pkg, name); pd != nil {
		if len(x.Args) != len(pd.Params) {
			ev.fail("%s expects %d arguments", name, len(pd.Params))
		}
		saved := map[string]Value{}
		had := map[string]bool{}
		var vals []Value
		for i := range pd.Params {
			vals = append(vals, arg(i))
		}
		for i, p := range pd.Params {
			if old, ok := ev.vars[p.Name]; ok {
				saved[p.Name] = old
				had[p.Name] = true
			}
			v := vals[i]
			if l, isL := v.(LitV); isL {
				v = ev.litTo(l, nil)
			}
			// give pointer parameters their declared type so that fields resolve
			if sc, isS := v.(Scalar); isS && p.Type != "" {
				if t, _ := ev.resolveSpecType(p.Type); t != nil {
					if _, isPtr := t.Underlying().(*types.Pointer); isPtr {
						sc.Typ = t
						v = sc
					}
				}
			}
			ev.vars[p.Name] = v
		}
		savedPkg, savedFr := ev.pkg, ev.fr
		ev.pkg = pd.Pkg
		ev.fr = nil
		r := ev.eval(pd.Body)
		ev.pkg, ev.fr = savedPkg, savedFr
		for _, p := range pd.Params {
			if had[p.Name] {
				ev.vars[p.Name] = saved[p.Name]
			} else {
				delete(ev.vars, p.Name)
			}
		}
		return r
	}
	// spec function?
	if sf := fc.eng.specFunc(ev.pkg, name); sf != nil {
		return ev.callSpec(sf, x)
	}
	if name != "" {
		// selector call like m.f(...) is not supported
	}
	ev.fail("unknown function %s", x.Fun.String())
	return nil
}

func (ev *Env) callSpec(sf *SpecFunc, x *ECall) Value {
	fc := ev.fc
	var fname string
	if fc.recSelf == sf.Name {
		fname = qsym("spec!" + sf.Name + "$0")
	} else {
		fname = fc.declareSpec(sf)
	}
	if len(x.Args) != len(sf.Params) {
		ev.fail("%s expects %d arguments", sf.Name, len(sf.Params))
	}
	var args []string
	for i, a := range x.Args {
		v := ev.eval(a)
		_, srt := ev.resolveSpecType(sf.Params[i].Type)
		if srt == "SLICE" {
			sv, ok := v.(SliceV)
			if !ok {
				ev.fail("argument %d of %s must be a slice", i+1, sf.Name)
			}
			args = append(args, sv.Base, sv.Off, sv.Len)
			continue
		}
		if l, ok := v.(LitV); ok {
			args = append(args, ev.litTo(l, Scalar{Sort: srt}).T)
			continue
		}
		sc := ev.asScalar(v)
		if sc.Sort != srt {
			// widen bv
			if strings.HasPrefix(sc.Sort, "(_ BitVec") && strings.HasPrefix(srt, "(_ BitVec") {
				var wa, wb int
				fmt.Sscanf(sc.Sort, "(_ BitVec %d)", &wa)
				fmt.Sscanf(srt, "(_ BitVec %d)", &wb)
				if wa < wb {
					ext := "zero_extend"
					if signedOf(sc) {
						ext = "sign_extend"
					}
					sc = Scalar{fmt.Sprintf("((_ %s %d) %s)", ext, wb-wa, sc.T), srt, nil}
				} else {
					sc = Scalar{fmt.Sprintf("((_ extract %d 0) %s)", wb-1, sc.T), srt, nil}
				}
			} else {
				ev.fail("argument %d of %s has sort %s, want %s", i+1, sf.Name, sc.Sort, srt)
			}
		}
		args = append(args, sc.T)
	}
	if sf.Heap {
		// the heap components the body reads, taken from the state the application is evaluated in
		var tm *heapTemplate
		if fc.recSelf == sf.Name {
			tm = fc.recHeap // nil during the discovery pass: the recursive occurrence reads what the body reads
		} else {
			tm = fc.u.specHeap[sf.Name]
		}
		if tm != nil {
			for i, k := range tm.keys {
				args = append(args, fc.compTerm(ev.cur(), k, tm.sorts[i]))
			}
		}
	}
	rt, rs := ev.resolveSpecType(sf.Result)
	if len(args) == 0 {
		return Scalar{fname, rs, rt}
	}
	return Scalar{"(" + fname + " " + strings.Join(args, " ") + ")", rs, rt}
}

// declareSpec emits the SMT definition of a spec function (once per unit).
func (fc *FuncCtx) declareSpec(sf *SpecFunc) string {
	name := qsym("spec!" + sf.Name)
	if fc.u.declared[name] {
		return name
	}
	fc.u.declared[name] = true
	emitted := false
	defer func() {
		if !emitted {
			// the definition could not be expressed in this unit's model: it must not look defined
			delete(fc.u.declared, name)
		}
	}()
	ev := &Env{fc: fc, pkg: sf.Pkg, vars: map[string]Value{}}
	ev.st = &State{pc: "true", locals: map[localKey]Value{}, heap: map[string]string{}, ghost: map[string]Value{}}
	ev.old = ev.st
	var params []string
	var psorts []string
	var pnames []string
	addp := func(pn, srt string) {
		params = append(params, "("+pn+" "+srt+")")
		psorts = append(psorts, srt)
		pnames = append(pnames, pn)
	}
	for _, p := range sf.Params {
		t, srt := ev.resolveSpecType(p.Type)
		if srt == "SLICE" {
			b, o, l := qsym("p!"+p.Name+".base"), qsym("p!"+p.Name+".off"), qsym("p!"+p.Name+".len")
			addp(b, "Int")
			addp(o, fc.intSort())
			addp(l, fc.intSort())
			ev.vars[p.Name] = SliceV{Base: b, Off: o, Len: l, Cap: l, Elem: t.(*types.Slice).Elem()}
			continue
		}
		pn := qsym("p!" + p.Name)
		addp(pn, srt)
		ev.vars[p.Name] = Scalar{pn, srt, t}
	}
	_, rs := ev.resolveSpecType(sf.Result)
	fc.u.quant++
	defer func() { fc.u.quant-- }()
	if sf.Heap && !sf.Uninterp {
		// pass 1: find the heap components the body reads; they become trailing parameters
		tm := &heapTemplate{}
		ev.st.tmpl = tm
		fc.recSelf = sf.Name
		fc.recHeap = nil
		func() {
			defer func() { fc.recSelf = "" }()
			ev.eval(sf.Body)
		}()
		if fc.u.specHeap == nil {
			fc.u.specHeap = map[string]*heapTemplate{}
		}
		fc.u.specHeap[sf.Name] = tm
		for i, k := range tm.keys {
			addp(qsym("hp!"+k), tm.sorts[i])
		}
		fc.recHeap = tm
		defer func() { fc.recHeap = nil }()
	}
	if sf.Uninterp {
		fc.u.emit("(declare-fun " + name + " (" + strings.Join(psorts, " ") + ") " + rs + ")")
		fc.u.Assumptions["uninterpreted spec function "+sf.Name] = true
		emitted = true
		return name
	}
	if sf.Rec {
		// Fuel encoding (as in Boogie/Dafny): `name` may be unfolded once, its recursive occurrences are the
		// fuel-0 synonym name$0, which is never unfolded. Both denote the same function (synonym axiom).
		name0 := qsym("spec!" + sf.Name + "$0")
		fc.u.emit("(declare-fun " + name + " (" + strings.Join(psorts, " ") + ") " + rs + ")")
		fc.u.emit("(declare-fun " + name0 + " (" + strings.Join(psorts, " ") + ") " + rs + ")")
		fc.recSelf = sf.Name
		body := ev.eval(sf.Body)
		fc.recSelf = ""
		{
			pn0 := pnames
			app1 := "(" + name + " " + strings.Join(pn0, " ") + ")"
			app0 := "(" + name0 + " " + strings.Join(pn0, " ") + ")"
			fc.u.emit("(assert (forall (" + strings.Join(params, " ") + ") (! (= " + app1 + " " + app0 + ") :pattern (" + app1 + "))))")
		}
		fc.u.Assumptions["recursive spec function "+sf.Name+" is assumed well-founded (its `decreases` measure is not checked mechanically)"] = true
		var bt string
		if l, ok := body.(LitV); ok {
			bt = ev.litTo(l, Scalar{Sort: rs}).T
		} else {
			bt = ev.asScalar(body).T
		}
		pn := pnames
		app := "(" + name + " " + strings.Join(pn, " ") + ")"
		fc.u.emit("(assert (forall (" + strings.Join(params, " ") + ") (! (= " + app + " " + bt + ") :pattern (" + app + "))))")
		emitted = true
		return name
	}
	body := ev.eval(sf.Body)
	var bt string
	if l, ok := body.(LitV); ok {
		bt = ev.litTo(l, Scalar{Sort: rs}).T
	} else {
		bs := ev.asScalar(body)
		if bs.Sort != rs {
			ev.fail("spec func %s: body has sort %s, declared %s", sf.Name, bs.Sort, rs)
		}
		bt = bs.T
	}
	fc.u.emit("(define-fun " + name + " (" + strings.Join(params, " ") + ") " + rs + " " + bt + ")")
	emitted = true
	return name
}

// applyGhostUpdate performs `target = val [if cond]` on ghost state.
func (fc *FuncCtx) applyGhostUpdate(ev *Env, st *State, gu *GhostUpdate) {
	cond := "true"
	if gu.Cond != nil {
		cond = ev.evalBool(gu.Cond)
	}
	val := ev.eval(gu.Val)
	switch t := gu.Target.(type) {
	case *EIdent:
		g := fc.eng.ghostVar(ev.pkg, t.Name)
		if g == nil {
			fc.unsupported("ghost update of undeclared ghost variable %s", t.Name)
		}
		srt := fc.specSort(g.Type)
		cur := ev.lookup(t.Name).(Scalar)
		var nv Scalar
		if l, ok := val.(LitV); ok {
			nv = ev.litTo(l, Scalar{Sort: srt})
		} else {
			nv = ev.asScalar(val)
		}
		st.ghost[t.Name] = Scalar{fc.u.define("ghost."+t.Name, srt, tIte(cond, nv.T, cur.T)), srt, cur.Typ}
		return
	case *ESel:
		base := ev.eval(t.X)
		g := fc.eng.ghostField(ev.pkg, t.Name, base)
		if g == nil {
			fc.unsupported("ghost update of undeclared ghost field %s", t.Name)
		}
		ref := ev.asScalar(base).T
		_, srt := ev.resolveSpecType(g.Type)
		key := "X!" + g.Owner + "." + g.Name
		cur := fc.compTerm(st, key, "(Array Int "+srt+")")
		var nv Scalar
		if l, ok := val.(LitV); ok {
			nv = ev.litTo(l, Scalar{Sort: srt})
		} else {
			nv = ev.asScalar(val)
		}
		fc.setComp(st, key, "(Array Int "+srt+")", tIte(cond, "(store "+cur+" "+ref+" "+nv.T+")", cur))
		return
	case *EIndex:
		// ghost sequence field element: m.hid[k] = v
		if sel, ok := t.X.(*ESel); ok {
			base := ev.eval(sel.X)
			g := fc.eng.ghostField(ev.pkg, sel.Name, base)
			if g != nil {
				ref := ev.asScalar(base).T
				_, srt := ev.resolveSpecType(g.Type)
				key := "X!" + g.Owner + "." + g.Name
				cur := fc.compTerm(st, key, "(Array Int "+srt+")")
				iv := ev.eval(t.I)
				var is string
				if l, ok := iv.(LitV); ok {
					is = fc.intLit(l.V, types.Typ[types.Int])
				} else {
					is = ev.asScalar(iv).T
				}
				var nv Scalar
				if l, ok := val.(LitV); ok {
					nv = ev.litTo(l, Scalar{Sort: arrayElemSort(srt)})
				} else {
					nv = ev.asScalar(val)
				}
				fc.setComp(st, key, "(Array Int "+srt+")", tIte(cond, "(store "+cur+" "+ref+" (store (select "+cur+" "+ref+") "+is+" "+nv.T+"))", cur))
				return
			}
		}
	}
	fc.unsupported("unsupported ghost update target %s", gu.Target.String())
}

// evalPlace evaluates an l-value expression (x.f, x.f.g) to a place.
func (ev *Env) evalPlace(e Expr) PlaceV {
	fc := ev.fc
	if id, isId := e.(*EIdent); isId && ev.fr != nil {
		// the variable itself (a local cell or a captured variable)
		for _, fv := range ev.fr.fn.FreeVars {
			if fv.Name() == id.Name {
				if v, ok := ev.fr.vals[fv]; ok {
					if pl, isP := v.(PlaceV); isP {
						return pl
					}
				}
			}
		}
		for _, b := range ev.fr.fn.Blocks {
			for _, ins := range b.Instrs {
				if a, ok := ins.(*ssa.Alloc); ok && a.Comment == id.Name {
					if v, ok := ev.fr.vals[a]; ok {
						if pl, isP := v.(PlaceV); isP {
							return pl
						}
					}
				}
			}
		}
		ev.fail("cannot take the address of %s", id.Name)
	}
	sel, ok := e.(*ESel)
	if !ok {
		ev.fail("cannot take the address of %s", e.String())
	}
	var base PlaceV
	if inner, isSel := sel.X.(*ESel); isSel {
		// x.f.g: try x.f as a place first (embedded struct), else as a pointer value
		func() {
			defer func() {
				if r := recover(); r != nil {
					if _, isU := r.(unsupportedErr); !isU {
						panic(r)
					}
					v := ev.eval(inner)
					pl, ok := ev.placeOf(v)
					if !ok {
						ev.fail("cannot take the address of %s", e.String())
					}
					base = pl
				}
			}()
			bp := ev.evalPlace(inner)
			if _, isSt := bp.Typ.Underlying().(*types.Struct); !isSt {
				// a pointer-typed field: dereference
				v := fc.loadPlace(ev.cur(), bp)
				pl, ok := ev.placeOf(v)
				if !ok {
					ev.fail("cannot take the address of %s", e.String())
				}
				bp = pl
			}
			base = bp
		}()
	} else {
		v := ev.eval(sel.X)
		pl, ok := ev.placeOf(v)
		if !ok {
			ev.fail("cannot take the address of %s (base is %T)", e.String(), v)
		}
		base = pl
	}
	stt, ok := base.Typ.Underlying().(*types.Struct)
	if !ok {
		ev.fail("address of field %s of non-struct", sel.Name)
	}
	for i := 0; i < stt.NumFields(); i++ {
		f := stt.Field(i)
		if f.Name() != sel.Name {
			continue
		}
		if base.Kind == "obj" && len(base.Path) == 0 && strings.HasPrefix(base.Prefix, "O!") && embeddedObject(f.Type()) {
			if _, named := base.Typ.(*types.Named); named {
				return fc.objPlace(fc.derivedRef(base.Typ, f.Name(), base.RefTerm), f.Type())
			}
		}
		np := base
		np.Path = append(append([]string(nil), base.Path...), f.Name())
		np.Typ = f.Type()
		return np
	}
	ev.fail("no field %s in %s", sel.Name, base.Typ)
	return PlaceV{}
}

func (ev *Env) evalStrFn(name string, x *ECall, arg func(int) Value) Value {
	switch name {
	case "prefixof":
		a, b := ev.asScalar(arg(0)), ev.asScalar(arg(1))
		return Scalar{"(str.prefixof " + a.T + " " + b.T + ")", "Bool", types.Typ[types.Bool]}
	case "suffixof":
		a, b := ev.asScalar(arg(0)), ev.asScalar(arg(1))
		return Scalar{"(str.suffixof " + a.T + " " + b.T + ")", "Bool", types.Typ[types.Bool]}
	case "contains":
		a, b := ev.asScalar(arg(0)), ev.asScalar(arg(1))
		return Scalar{"(str.contains " + a.T + " " + b.T + ")", "Bool", types.Typ[types.Bool]}
	case "indexof":
		a, b := ev.asScalar(arg(0)), ev.asScalar(arg(1))
		from := "0"
		if len(x.Args) > 2 {
			from = ev.idx(arg(2))
		}
		return Scalar{"(str.indexof " + a.T + " " + b.T + " " + from + ")", "Int", types.Typ[types.Int]}
	case "chr":
		// the one-character string with this byte value
		return Scalar{"(str.from_code " + ev.idx(arg(0)) + ")", "String", types.Typ[types.String]}
	case "substr":
		a := ev.asScalar(arg(0))
		return Scalar{"(str.substr " + a.T + " " + ev.idx(arg(1)) + " " + ev.idx(arg(2)) + ")", "String", a.Typ}
	}
	ev.fail("unknown string function %s", name)
	return nil
}
