package main

import (
	"fmt"
	"go/token"
	"go/types"
	"math/big"
	"strings"

	"golang.org/x/tools/go/ssa"
)

func (fc *FuncCtx) execUnOp(fr *Frame, st *State, x *ssa.UnOp) Value {
	switch x.Op {
	case token.MUL:
		p := fc.toPlace(fr, st, x.X, x.Pos())
		fc.checkGuard(fr, st, p, x.Pos(), false)
		return fc.loadPlace(st, p)
	case token.NOT:
		v := fc.val(fr, st, x.X).(Scalar)
		return Scalar{tNot(v.T), "Bool", x.Type()}
	case token.SUB:
		v := fc.val(fr, st, x.X).(Scalar)
		if isFloat(x.Type()) {
			return Scalar{"(fp.neg " + v.T + ")", floatSort, x.Type()}
		}
		if fc.model == "bv" {
			return Scalar{"(bvneg " + v.T + ")", v.Sort, x.Type()}
		}
		r := "(- " + v.T + ")"
		fc.overflowCheck(fr, st, r, x.Type(), x.Pos())
		return Scalar{r, "Int", x.Type()}
	case token.XOR:
		v := fc.val(fr, st, x.X).(Scalar)
		if fc.model == "bv" {
			return Scalar{"(bvnot " + v.T + ")", v.Sort, x.Type()}
		}
		fc.unsupported("bitwise complement in model int")
	case token.ARROW:
		return fc.execRecv(fr, st, x)
	}
	fc.unsupported("unary op %s", x.Op)
	return nil
}

func (fc *FuncCtx) overflowCheck(fr *Frame, st *State, r string, t types.Type, pos token.Pos) {
	if fc.model != "int" {
		return
	}
	if fr.con != nil && fr.con.Flags["nooverflow"] != "" {
		fc.u.Assumptions["machine integers treated as mathematical in "+fr.con.Key+" (flag nooverflow "+fr.con.Flags["nooverflow"]+")"] = true
		return
	}
	fc.oblige(fr, st, "safety.overflow", "", fc.rangeFact(r, t), pos, "integer result stays within the range of "+t.String()+" (so mathematical and machine arithmetic agree)")
}

func (fc *FuncCtx) execBinOp(fr *Frame, st *State, x *ssa.BinOp) Value {
	a := fc.val(fr, st, x.X)
	b := fc.val(fr, st, x.Y)
	t := x.X.Type()
	rt := x.Type()
	switch x.Op {
	case token.EQL, token.NEQ:
		eq := fc.valuesEq(st, a, b, t)
		if x.Op == token.NEQ {
			eq = tNot(eq)
		}
		return Scalar{eq, "Bool", rt}
	}
	as, aok := a.(Scalar)
	bs, bok := b.(Scalar)
	if !aok || !bok {
		fc.unsupported("binary op %s on %T, %T", x.Op, a, b)
	}
	// strings
	if isString(t) {
		switch x.Op {
		case token.ADD:
			if fc.strmode == "smtlib" {
				return Scalar{"(str.++ " + as.T + " " + bs.T + ")", "String", rt}
			}
			fc.u.declare("strcat", "(declare-fun strcat (Str Str) Str)")
			fc.u.declare("strlen", "(declare-fun strlen (Str) Int)")
			r := "(strcat " + as.T + " " + bs.T + ")"
			fc.u.fact(st.pc, "(= (strlen "+r+") (+ (strlen "+as.T+") (strlen "+bs.T+")))")
			return Scalar{r, "Str", rt}
		case token.LSS, token.LEQ, token.GTR, token.GEQ:
			if fc.strmode == "smtlib" {
				op := map[token.Token]string{token.LSS: "str.<", token.LEQ: "str.<="}[x.Op]
				if op != "" {
					return Scalar{"(" + op + " " + as.T + " " + bs.T + ")", "Bool", rt}
				}
				op = map[token.Token]string{token.GTR: "str.<", token.GEQ: "str.<="}[x.Op]
				return Scalar{"(" + op + " " + bs.T + " " + as.T + ")", "Bool", rt}
			}
			return Scalar{fc.u.fresh("strcmp", "Bool"), "Bool", rt}
		}
		fc.unsupported("string op %s", x.Op)
	}
	if isBool(t) {
		fc.unsupported("bool binop %s", x.Op)
	}
	if isFloat(t) {
		return fc.floatBinOp(x.Op, as, bs, rt)
	}
	// integers
	w, signed, ok := intInfo(t)
	if !ok {
		fc.unsupported("binary op %s on type %s", x.Op, t)
	}
	switch x.Op {
	case token.LSS, token.LEQ, token.GTR, token.GEQ:
		return Scalar{fc.icmp(x.Op.String(), as.T, bs.T, t), "Bool", rt}
	}
	if fc.model == "bv" {
		var r string
		switch x.Op {
		case token.ADD:
			r = "(bvadd " + as.T + " " + bs.T + ")"
		case token.SUB:
			r = "(bvsub " + as.T + " " + bs.T + ")"
		case token.MUL:
			r = "(bvmul " + as.T + " " + bs.T + ")"
		case token.QUO, token.REM:
			fc.oblige(fr, st, "safety.div", "", tNot(tEq(bs.T, bvLit(big.NewInt(0), w))), x.Pos(), "divisor is not zero")
			op := map[bool]map[token.Token]string{true: {token.QUO: "bvsdiv", token.REM: "bvsrem"}, false: {token.QUO: "bvudiv", token.REM: "bvurem"}}[signed][x.Op]
			r = "(" + op + " " + as.T + " " + bs.T + ")"
		case token.AND:
			r = "(bvand " + as.T + " " + bs.T + ")"
		case token.OR:
			r = "(bvor " + as.T + " " + bs.T + ")"
		case token.XOR:
			r = "(bvxor " + as.T + " " + bs.T + ")"
		case token.AND_NOT:
			r = "(bvand " + as.T + " (bvnot " + bs.T + "))"
		case token.SHL, token.SHR:
			// shift count: its own type; negative signed count panics
			cw, csigned, _ := intInfo(x.Y.Type())
			cnt := bs.T
			if csigned {
				fc.oblige(fr, st, "safety.shift", "", "(bvsge "+cnt+" "+bvLit(big.NewInt(0), cw)+")", x.Pos(), "shift count is not negative")
			}
			// saturate count to width w
			var c2 string
			if cw > w {
				// if any high bit set -> count >= w
				big1 := "(bvuge " + cnt + " " + bvLit(big.NewInt(int64(w)), cw) + ")"
				c2 = tIte(big1, bvLit(big.NewInt(int64(w)), w), fmt.Sprintf("((_ extract %d 0) %s)", w-1, cnt))
			} else if cw < w {
				c2 = fmt.Sprintf("((_ zero_extend %d) %s)", w-cw, cnt)
			} else {
				c2 = cnt
			}
			if x.Op == token.SHL {
				r = "(bvshl " + as.T + " " + c2 + ")"
			} else if signed {
				r = "(bvashr " + as.T + " " + c2 + ")"
			} else {
				r = "(bvlshr " + as.T + " " + c2 + ")"
			}
		default:
			fc.unsupported("bv op %s", x.Op)
		}
		return Scalar{fc.u.define("t", as.Sort, r), as.Sort, rt}
	}
	// model int
	var r string
	switch x.Op {
	case token.ADD:
		r = "(+ " + as.T + " " + bs.T + ")"
		fc.overflowCheck(fr, st, r, rt, x.Pos())
	case token.SUB:
		r = "(- " + as.T + " " + bs.T + ")"
		fc.overflowCheck(fr, st, r, rt, x.Pos())
	case token.MUL:
		r = "(* " + as.T + " " + bs.T + ")"
		fc.overflowCheck(fr, st, r, rt, x.Pos())
	case token.QUO, token.REM:
		fc.oblige(fr, st, "safety.div", "", tNot(tEq(bs.T, "0")), x.Pos(), "divisor is not zero")
		// Go truncated division expressed with SMT floor div on absolute values
		q := "(ite (>= " + as.T + " 0) (ite (> " + bs.T + " 0) (div " + as.T + " " + bs.T + ") (- (div " + as.T + " (- " + bs.T + ")))) (ite (> " + bs.T + " 0) (- (div (- " + as.T + ") " + bs.T + ")) (div (- " + as.T + ") (- " + bs.T + "))))"
		if c, isC := x.Y.(*ssa.Const); isC && c.Value != nil {
			// constant positive divisor and (most of the time) non-negative dividend: simpler term
			if v, ok := fc.constInt(c); ok && v > 0 {
				q = "(ite (>= " + as.T + " 0) (div " + as.T + " " + bs.T + ") (- (div (- " + as.T + ") " + bs.T + ")))"
			}
		}
		if !signed {
			q = "(div " + as.T + " " + bs.T + ")"
		}
		if x.Op == token.QUO {
			r = q
			if signed {
				fc.overflowCheck(fr, st, r, rt, x.Pos())
			}
		} else {
			qn := fc.u.define("quo", "Int", q)
			r = "(- " + as.T + " (* " + bs.T + " " + qn + "))"
			if !signed {
				r = "(mod " + as.T + " " + bs.T + ")"
			}
			rn := fc.u.define("rem", "Int", r)
			// range lemmas for a symbolic positive divisor and non-negative dividend
			fc.u.fact(st.pc, tImp("(and (>= "+as.T+" 0) (> "+bs.T+" 0))", "(and (<= 0 "+rn+") (< "+rn+" "+bs.T+") (=> (< "+as.T+" "+bs.T+") (= "+rn+" "+as.T+")) (=> (= "+as.T+" "+bs.T+") (= "+rn+" 0)))"))
			return Scalar{rn, "Int", rt}
		}
	case token.SHL:
		if v, ok := fc.constIntVal(x.Y); ok && v >= 0 && v < 62 {
			r = fmt.Sprintf("(* %s %d)", as.T, int64(1)<<uint(v))
			fc.overflowCheck(fr, st, r, rt, x.Pos())
		} else {
			fc.unsupported("shift by non-constant in model int")
		}
	case token.SHR:
		if v, ok := fc.constIntVal(x.Y); ok && v >= 0 && v < 62 {
			// arithmetic shift = floor division
			r = fmt.Sprintf("(div %s %d)", as.T, int64(1)<<uint(v))
		} else {
			fc.unsupported("shift by non-constant in model int")
		}
	case token.AND:
		// x & (2^k - 1) on non-negative x = x mod 2^k
		if v, ok := fc.constIntVal(x.Y); ok && v > 0 && (v&(v+1)) == 0 {
			r = fmt.Sprintf("(mod %s %d)", as.T, v+1)
		} else {
			fc.unsupported("bitwise and in model int")
		}
	default:
		fc.unsupported("op %s in model int (declare `model bv` for this function)", x.Op)
	}
	return Scalar{fc.u.define("t", "Int", r), "Int", rt}
}

func (fc *FuncCtx) constInt(c *ssa.Const) (int64, bool) {
	if c.Value == nil {
		return 0, false
	}
	if _, _, ok := intInfo(c.Type()); !ok {
		return 0, false
	}
	return c.Int64(), true
}

func (fc *FuncCtx) constIntVal(v ssa.Value) (int64, bool) {
	if c, ok := v.(*ssa.Const); ok {
		return fc.constInt(c)
	}
	if cv, ok := v.(*ssa.Convert); ok {
		return fc.constIntVal(cv.X)
	}
	return 0, false
}

func (fc *FuncCtx) floatBinOp(op token.Token, a, b Scalar, rt types.Type) Value {
	switch op {
	case token.ADD:
		return Scalar{"(fp.add RNE " + a.T + " " + b.T + ")", floatSort, rt}
	case token.SUB:
		return Scalar{"(fp.sub RNE " + a.T + " " + b.T + ")", floatSort, rt}
	case token.MUL:
		return Scalar{"(fp.mul RNE " + a.T + " " + b.T + ")", floatSort, rt}
	case token.QUO:
		return Scalar{"(fp.div RNE " + a.T + " " + b.T + ")", floatSort, rt}
	case token.LSS:
		return Scalar{"(fp.lt " + a.T + " " + b.T + ")", "Bool", rt}
	case token.LEQ:
		return Scalar{"(fp.leq " + a.T + " " + b.T + ")", "Bool", rt}
	case token.GTR:
		return Scalar{"(fp.gt " + a.T + " " + b.T + ")", "Bool", rt}
	case token.GEQ:
		return Scalar{"(fp.geq " + a.T + " " + b.T + ")", "Bool", rt}
	}
	fc.unsupported("float op %s", op)
	return nil
}

// valuesEq: Go == on two values of static type t.
func (fc *FuncCtx) valuesEq(st *State, a, b Value, t types.Type) string {
	switch x := a.(type) {
	case Scalar:
		switch y := b.(type) {
		case Scalar:
			if isFloat(t) {
				return "(fp.eq " + x.T + " " + y.T + ")"
			}
			return tEq(x.T, y.T)
		case PlaceV:
			return tEq(x.T, fc.scalarTerm(st, y, t))
		case SliceV:
			// only comparison with nil is legal
			return tEq(y.Base, "0")
		case ClosureV:
			return tEq(x.T, y.ID)
		}
	case PlaceV:
		switch y := b.(type) {
		case Scalar:
			if (x.Kind == "obj" || x.Kind == "cell") && len(x.Path) == 0 {
				return tEq(x.RefTerm, y.T)
			}
			// interior pointers and locals are never nil
			if y.T == "0" {
				return "false"
			}
		case PlaceV:
			if valueEqual(x, y) {
				return "true"
			}
			if (x.Kind == "obj" || x.Kind == "cell") && (y.Kind == "obj" || y.Kind == "cell") && len(x.Path) == 0 && len(y.Path) == 0 {
				return tEq(x.RefTerm, y.RefTerm)
			}
		}
	case SliceV:
		if y, ok := b.(Scalar); ok && y.T == "0" {
			return tEq(x.Base, "0")
		}
		if y, ok := b.(SliceV); ok {
			// comparison with nil slice constant
			if y.Base == "0" {
				return tEq(x.Base, "0")
			}
			if x.Base == "0" {
				return tEq(y.Base, "0")
			}
		}
	case StructV:
		y, ok := b.(StructV)
		if ok {
			stt := x.Typ.Underlying().(*types.Struct)
			var cs []string
			for i := range x.Fields {
				cs = append(cs, fc.valuesEq(st, x.Fields[i], y.Fields[i], stt.Field(i).Type()))
			}
			return tAnd(cs...)
		}
	case ClosureV:
		if y, ok := b.(Scalar); ok {
			return tEq(x.ID, y.T)
		}
	}
	fc.unsupported("equality on %T and %T", a, b)
	return ""
}

func (fc *FuncCtx) sliceOf(fr *Frame, st *State, v ssa.Value) SliceV {
	sv, ok := fc.val(fr, st, v).(SliceV)
	if !ok {
		fc.unsupported("expected slice value for %s: %T", v.Name(), fc.val(fr, st, v))
	}
	return sv
}

func (fc *FuncCtx) execIndexAddr(fr *Frame, st *State, x *ssa.IndexAddr) Value {
	i := fc.idxTerm(fr, st, x.Index)
	z := fc.ilit(0)
	switch u := x.X.Type().Underlying().(type) {
	case *types.Slice:
		sv := fc.sliceOf(fr, st, x.X)
		fc.oblige(fr, st, "safety.index", "", tAnd(fc.ile(z, i), fc.ilt(i, sv.Len)), x.Pos(), "index within slice bounds")
		return fc.elemPlace(sv.Base, fc.u.define("ix", fc.intSort(), fc.elemIdx(sv.Off, i)), u.Elem())
	case *types.Pointer:
		at, ok := u.Elem().Underlying().(*types.Array)
		if !ok {
			fc.unsupported("IndexAddr on %s", x.X.Type())
		}
		p := fc.toPlace(fr, st, x.X, x.Pos())
		if p.Kind != "obj" || len(p.Path) != 0 {
			fc.unsupported("index into an array that is not a whole object")
		}
		fc.oblige(fr, st, "safety.index", "", tAnd(fc.ile(z, i), fc.ilt(i, fc.ilit(at.Len()))), x.Pos(), "index within array bounds")
		return fc.elemPlace(p.RefTerm, i, at.Elem())
	}
	fc.unsupported("IndexAddr on %s", x.X.Type())
	return nil
}

func (fc *FuncCtx) execIndex(fr *Frame, st *State, x *ssa.Index) Value {
	i := fc.idxTerm(fr, st, x.Index)
	if isString(x.X.Type()) {
		s := fc.val(fr, st, x.X).(Scalar)
		ln := fc.strLen(s.T)
		fc.oblige(fr, st, "safety.index", "", tAnd("(<= 0 "+i+")", "(< "+i+" "+ln+")"), x.Pos(), "index within string bounds")
		return fc.strAt(st, s.T, i)
	}
	fc.unsupported("Index on %s", x.X.Type())
	return nil
}

func (fc *FuncCtx) strLen(s string) string {
	if fc.model == "bv" {
		fc.unsupported("string length in model bv")
	}
	if fc.strmode == "smtlib" {
		return "(str.len " + s + ")"
	}
	fc.u.declare("strlen", "(declare-fun strlen (Str) Int)")
	return "(strlen " + s + ")"
}

func (fc *FuncCtx) strAt(st *State, s, i string) Value {
	bt := types.Typ[types.Uint8]
	if fc.strmode == "smtlib" {
		r := fc.u.define("ch", "Int", "(str.to_code (str.at "+s+" "+i+"))")
		fc.u.fact(st.pc, tImp("(and (<= 0 "+i+") (< "+i+" (str.len "+s+")))", "(and (<= 0 "+r+") (<= "+r+" 255))"))
		return Scalar{r, "Int", bt}
	}
	fc.u.declare("strat", "(declare-fun strat (Str Int) Int)")
	r := "(strat " + s + " " + i + ")"
	fc.u.fact(st.pc, "(and (<= 0 "+r+") (<= "+r+" 255))")
	return Scalar{r, "Int", bt}
}

func (fc *FuncCtx) execSlice(fr *Frame, st *State, x *ssa.Slice) Value {
	z := fc.ilit(0)
	get := func(v ssa.Value, def string) string {
		if v == nil {
			return def
		}
		return fc.idxTerm(fr, st, v)
	}
	switch u := x.X.Type().Underlying().(type) {
	case *types.Slice:
		if fc.bytesStr && isByteSlice(x.X.Type()) {
			s := fc.val(fr, st, x.X).(Scalar)
			return fc.sliceString(fr, st, x, s, x.Type())
		}
		sv := fc.sliceOf(fr, st, x.X)
		lo := get(x.Low, z)
		hi := get(x.High, sv.Len)
		mx := get(x.Max, sv.Cap)
		fc.oblige(fr, st, "safety.slice", "", tAnd(fc.ile(z, lo), fc.ile(lo, hi), fc.ile(hi, mx), fc.ile(mx, sv.Cap)), x.Pos(), "slice bounds in range")
		return SliceV{Base: sv.Base, Off: fc.u.define("off", fc.intSort(), fc.iadd(sv.Off, lo)), Len: fc.u.define("len", fc.intSort(), fc.isub(hi, lo)), Cap: fc.u.define("cap", fc.intSort(), fc.isub(mx, lo)), Elem: u.Elem()}
	case *types.Basic:
		s := fc.val(fr, st, x.X).(Scalar)
		return fc.sliceString(fr, st, x, s, x.Type())
	case *types.Pointer:
		at, ok := u.Elem().Underlying().(*types.Array)
		if !ok {
			fc.unsupported("Slice on %s", x.X.Type())
		}
		p := fc.toPlace(fr, st, x.X, x.Pos())
		if p.Kind != "obj" || len(p.Path) != 0 {
			fc.unsupported("slice of an array that is not a whole object")
		}
		n := fc.ilit(at.Len())
		lo := get(x.Low, z)
		hi := get(x.High, n)
		mx := get(x.Max, n)
		fc.oblige(fr, st, "safety.slice", "", tAnd(fc.ile(z, lo), fc.ile(lo, hi), fc.ile(hi, mx), fc.ile(mx, n)), x.Pos(), "slice bounds in range")
		return SliceV{Base: p.RefTerm, Off: lo, Len: fc.u.define("len", fc.intSort(), fc.isub(hi, lo)), Cap: fc.u.define("cap", fc.intSort(), fc.isub(mx, lo)), Elem: at.Elem()}
	}
	fc.unsupported("Slice on %s", x.X.Type())
	return nil
}

func (fc *FuncCtx) sliceString(fr *Frame, st *State, x *ssa.Slice, s Scalar, rt types.Type) Value {
	ln := fc.strLen(s.T)
	lo := "0"
	hi := ln
	if x.Low != nil {
		lo = fc.idxTerm(fr, st, x.Low)
	}
	if x.High != nil {
		hi = fc.idxTerm(fr, st, x.High)
	}
	fc.oblige(fr, st, "safety.slice", "", "(and (<= 0 "+lo+") (<= "+lo+" "+hi+") (<= "+hi+" "+ln+"))", x.Pos(), "string slice bounds in range")
	if fc.strmode == "smtlib" {
		return Scalar{fc.u.define("sub", "String", "(str.substr "+s.T+" "+lo+" (- "+hi+" "+lo+"))"), "String", rt}
	}
	fc.u.declare("strsub", "(declare-fun strsub (Str Int Int) Str)")
	fc.u.declare("strlen", "(declare-fun strlen (Str) Int)")
	r := "(strsub " + s.T + " " + lo + " " + hi + ")"
	fc.u.fact(st.pc, tImp("(and (<= 0 "+lo+") (<= "+lo+" "+hi+") (<= "+hi+" "+ln+"))", "(= (strlen "+r+") (- "+hi+" "+lo+"))"))
	return Scalar{r, "Str", rt}
}

func (fc *FuncCtx) execConvert(fr *Frame, st *State, x *ssa.Convert) Value {
	from := x.X.Type()
	to := x.Type()
	v := fc.val(fr, st, x.X)
	_, _, fi := intInfo(from)
	_, _, ti := intInfo(to)
	switch {
	case fi && ti:
		sc := v.(Scalar)
		if fc.model == "bv" {
			return Scalar{fc.convInt(sc.T, from, to), fc.sortOf(to), to}
		}
		// model int: the value must fit the target type (otherwise machine semantics would wrap)
		fw, fs, _ := intInfo(from)
		tw, ts, _ := intInfo(to)
		if !(fs == ts && tw >= fw) && !(!fs && ts && tw > fw) {
			if c, isC := x.X.(*ssa.Const); !isC || c.Value == nil {
				fc.oblige(fr, st, "safety.overflow", "", fc.rangeFact(sc.T, to), x.Pos(), "converted integer fits "+to.String())
			}
		}
		return Scalar{sc.T, "Int", to}
	case fi && isFloat(to):
		sc := v.(Scalar)
		_, signed, _ := intInfo(from)
		if fc.model != "bv" {
			fc.u.Assumptions["integer model: the result of an int<->float conversion is an unconstrained value of the target type"] = true
			return fc.freshValue(st, to, "i2f")
		}
		if signed {
			return Scalar{"((_ to_fp 11 53) RNE " + sc.T + ")", floatSort, to}
		}
		return Scalar{"((_ to_fp_unsigned 11 53) RNE " + sc.T + ")", floatSort, to}
	case isFloat(from) && ti:
		sc := v.(Scalar)
		w, signed, _ := intInfo(to)
		if fc.model != "bv" {
			fc.u.Assumptions["integer model: the result of an int<->float conversion is an unconstrained value of the target type"] = true
			return fc.freshValue(st, to, "f2i")
		}
		// Go: result is implementation-defined when out of range; we require in-range via obligation
		if signed {
			return Scalar{fmt.Sprintf("((_ fp.to_sbv %d) RTZ %s)", w, sc.T), fc.sortOf(to), to}
		}
		return Scalar{fmt.Sprintf("((_ fp.to_ubv %d) RTZ %s)", w, sc.T), fc.sortOf(to), to}
	case isString(from) && isByteSlice(to):
		if fc.bytesStr {
			return retype(v, to)
		}
		return fc.bytesOfString(st, v.(Scalar), to)
	case isByteSlice(from) && isString(to):
		if fc.bytesStr {
			return retype(v, to)
		}
		return fc.stringOfBytes(st, v.(SliceV), to)
	case isString(from) && isString(to):
		return retype(v, to)
	case fi && isString(to):
		return fc.freshValue(st, to, "runestr")
	}
	if types.Identical(from.Underlying(), to.Underlying()) {
		return retype(v, to)
	}
	if _, ok := to.Underlying().(*types.Pointer); ok {
		return retype(v, to)
	}
	fc.unsupported("conversion %s -> %s", from, to)
	return nil
}

// bytesOfString: []byte(s) in the array model: a fresh backing array whose contents are
// tied to s by the uninterpreted pair str2b / b2str.
func (fc *FuncCtx) bytesOfString(st *State, s Scalar, to types.Type) Value {
	ref := fc.newRef(st, "bytes")
	ln := fc.strLen(s.T)
	if fc.model == "bv" {
		fc.unsupported("string conversion in model bv")
	}
	sv := SliceV{Base: ref, Off: "0", Len: ln, Cap: ln, Elem: types.Typ[types.Uint8]}
	// contents: elem[ref][i] == strAt(s, i)
	key := "E!" + typeKey(types.Typ[types.Uint8])
	srt := arraySort([]string{"Int", "Int"}, "Int")
	cur := fc.compTerm(st, key, srt)
	arr := fc.u.fresh("bytesOf", "(Array Int Int)")
	if fc.strmode == "smtlib" {
		fc.u.fact(st.pc, "(forall ((i Int)) (! (=> (and (<= 0 i) (< i "+ln+")) (= (select "+arr+" i) (str.to_code (str.at "+s.T+" i)))) :pattern ((select "+arr+" i))))")
	} else {
		fc.u.declare("strat", "(declare-fun strat (Str Int) Int)")
		fc.u.fact(st.pc, "(forall ((i Int)) (! (=> (and (<= 0 i) (< i "+ln+")) (= (select "+arr+" i) (strat "+s.T+" i))) :pattern ((select "+arr+" i))))")
	}
	fc.setComp(st, key, srt, "(store "+cur+" "+ref+" "+arr+")")
	fc.u.declare("bytes2str", "(declare-fun bytes2str ((Array Int Int) Int Int) "+fc.strSort()+")")
	fc.u.fact(st.pc, "(= (bytes2str "+arr+" 0 "+ln+") "+s.T+")")
	return sv
}

func (fc *FuncCtx) stringOfBytes(st *State, sv SliceV, to types.Type) Value {
	if fc.model == "bv" {
		fc.unsupported("string conversion in model bv")
	}
	key := "E!" + typeKey(types.Typ[types.Uint8])
	srt := arraySort([]string{"Int", "Int"}, "Int")
	cur := fc.compTerm(st, key, srt)
	fc.u.declare("bytes2str", "(declare-fun bytes2str ((Array Int Int) Int Int) "+fc.strSort()+")")
	r := fc.u.define("str", fc.strSort(), "(bytes2str (select "+cur+" "+sv.Base+") "+sv.Off+" "+sv.Len+")")
	ln := fc.strLen(r)
	fc.u.fact(st.pc, "(= "+ln+" "+sv.Len+")")
	return Scalar{r, fc.strSort(), to}
}

// ---------- interfaces ----------

func (fc *FuncCtx) typeTag(t types.Type) string {
	key := shortType(t)
	id, ok := fc.tagIDs[key]
	if !ok {
		id = len(fc.tagIDs) + 1
		fc.tagIDs[key] = id
	}
	return fmt.Sprintf("%d", id)
}

func (fc *FuncCtx) declIface() {
	fc.u.declare("tagof", "(declare-fun tagof (Int) Int)")
}

func (fc *FuncCtx) boxFn(t types.Type, srt string) (string, string) {
	fc.declIface()
	k := shortType(t)
	mk := qsym("box:" + k)
	un := qsym("unbox:" + k)
	fc.u.declare(mk, "(declare-fun "+mk+" ("+srt+") Int)")
	fc.u.declare(un, "(declare-fun "+un+" (Int) "+srt+")")
	return mk, un
}

func (fc *FuncCtx) execMakeInterface(fr *Frame, st *State, x *ssa.MakeInterface) Value {
	v := fc.val(fr, st, x.X)
	t := x.X.Type()
	fc.declIface()
	var term string
	switch y := v.(type) {
	case Scalar:
		mk, un := fc.boxFn(t, y.Sort)
		term = fc.u.define("iface", "Int", "("+mk+" "+y.T+")")
		fc.u.fact("true", "(= ("+un+" "+term+") "+y.T+")")
		fc.boxed[term+"|"+shortType(t)] = y.T
	case PlaceV:
		if (y.Kind == "obj" || y.Kind == "cell") && len(y.Path) == 0 {
			mk, un := fc.boxFn(t, "Int")
			term = fc.u.define("iface", "Int", "("+mk+" "+y.RefTerm+")")
			fc.u.fact("true", "(= ("+un+" "+term+") "+y.RefTerm+")")
			fc.boxed[term+"|"+shortType(t)] = y.RefTerm
		} else {
			term = fc.u.fresh("iface", "Int")
		}
	case StructV:
		// a struct boxed by value: remembered so that contracts can name its fields (unbox(x, T).f)
		term = fc.u.fresh("iface", "Int")
		if fc.boxedStructs == nil {
			fc.boxedStructs = map[string]StructV{}
		}
		fc.boxedStructs[term+"|"+shortType(t)] = y
	default:
		term = fc.u.fresh("iface", "Int")
	}
	fc.u.fact("true", "(and (> "+term+" 0) (= (tagof "+term+") "+fc.typeTag(t)+"))")
	return Scalar{term, "Int", x.Type()}
}

func (fc *FuncCtx) execTypeAssert(fr *Frame, st *State, x *ssa.TypeAssert) Value {
	v := fc.val(fr, st, x.X).(Scalar)
	fc.declIface()
	at := x.AssertedType
	var okT string
	var res Value
	if _, isIface := at.Underlying().(*types.Interface); isIface {
		// interface-to-interface: succeeds for non-nil values whose dynamic type implements it (unknown)
		okB := fc.u.fresh("implements", "Bool")
		okT = tAnd(tNot(tEq(v.T, "0")), okB)
		res = Scalar{v.T, "Int", at}
	} else {
		okT = tAnd(tNot(tEq(v.T, "0")), "(= (tagof "+v.T+") "+fc.typeTag(at)+")")
		srt := fc.sortOf(at)
		switch at.Underlying().(type) {
		case *types.Slice, *types.Struct:
			res = fc.freshValue(st, at, "unboxed")
		default:
			_, un := fc.boxFn(at, srt)
			sc := Scalar{fc.u.define("unboxed", srt, "("+un+" "+v.T+")"), srt, at}
			res = sc
		}
	}
	if x.CommaOk {
		// on failure the value is the zero value
		okN := fc.u.define("ok", "Bool", okT)
		var r Value = res
		if sc, ok := res.(Scalar); ok {
			z := fc.zeroValue(at)
			if zs, ok := z.(Scalar); ok {
				r = Scalar{tIte(okN, sc.T, zs.T), sc.Sort, at}
			}
		}
		return TupleV{E: []Value{r, Scalar{okN, "Bool", types.Typ[types.Bool]}}}
	}
	fc.oblige(fr, st, "safety.typeassert", "", okT, x.Pos(), "type assertion to "+shortType(at)+" cannot fail")
	return res
}

// ---------- make ----------

func (fc *FuncCtx) execMakeSlice(fr *Frame, st *State, x *ssa.MakeSlice) Value {
	ln := fc.idxTerm(fr, st, x.Len)
	cp := fc.idxTerm(fr, st, x.Cap)
	z := fc.ilit(0)
	fc.oblige(fr, st, "safety.makesize", "", tAnd(fc.ile(z, ln), fc.ile(ln, cp)), x.Pos(), "make: 0 <= len <= cap")
	et := x.Type().Underlying().(*types.Slice).Elem()
	if fc.bytesStr && isByteSlice(x.Type()) {
		fc.unsupported("make([]byte) in bytes-as-strings mode")
	}
	ref := fc.newRef(st, "mk")
	fc.zeroElems(st, ref, et, "")
	fc.atMake(fr, st, x, ln)
	return SliceV{Base: ref, Off: z, Len: ln, Cap: cp, Elem: et}
}

func (fc *FuncCtx) execMakeMap(fr *Frame, st *State, x *ssa.MakeMap) Value {
	mt := x.Type().Underlying().(*types.Map)
	ref := fc.newRef(st, "map")
	mk := fc.mapKeys(mt)
	// empty map
	has := fc.compTerm(st, mk.has, arraySort([]string{"Int"}, "(Array "+mk.ksort+" Bool)"))
	fc.setComp(st, mk.has, arraySort([]string{"Int"}, "(Array "+mk.ksort+" Bool)"), "(store "+has+" "+ref+" ((as const (Array "+mk.ksort+" Bool)) false))")
	ln := fc.compTerm(st, mk.len, "(Array Int Int)")
	fc.setComp(st, mk.len, "(Array Int Int)", "(store "+ln+" "+ref+" 0)")
	return Scalar{ref, "Int", x.Type()}
}

type mapKeyInfo struct {
	has, val, len string
	ksort         string
	kt, vt        types.Type
}

func (fc *FuncCtx) mapKeys(mt *types.Map) mapKeyInfo {
	k := typeKey(mt.Key()) + "!" + typeKey(mt.Elem())
	return mapKeyInfo{has: "MH!" + k, val: "MV!" + k, len: "ML!" + k, ksort: fc.sortOf(mt.Key()), kt: mt.Key(), vt: mt.Elem()}
}

func (fc *FuncCtx) mapHas(st *State, mk mapKeyInfo, ref, key string) string {
	has := fc.compTerm(st, mk.has, arraySort([]string{"Int"}, "(Array "+mk.ksort+" Bool)"))
	return "(select (select " + has + " " + ref + ") " + key + ")"
}

func (fc *FuncCtx) mapLen(st *State, mk mapKeyInfo, ref string) string {
	ln := fc.compTerm(st, mk.len, "(Array Int Int)")
	return "(select " + ln + " " + ref + ")"
}

func (fc *FuncCtx) execMakeChan(fr *Frame, st *State, x *ssa.MakeChan) Value {
	ref := fc.newRef(st, "chan")
	fc.u.declare("chantype", "(declare-fun chantype (Int) Int)")
	fc.u.fact(st.pc, "(= (chantype "+ref+") "+fc.typeTag(x.Type().Underlying().(*types.Chan).Elem())+")")
	sz := fc.idxTerm(fr, st, x.Size)
	// record capacity (Int sort) and initial state
	if fc.model == "bv" {
		sz = "(bv2nat " + sz + ")"
	}
	cp := fc.compTerm(st, "CH!cap", "(Array Int Int)")
	fc.setComp(st, "CH!cap", "(Array Int Int)", "(store "+cp+" "+ref+" "+sz+")")
	cl := fc.compTerm(st, "CH!closed", "(Array Int Bool)")
	fc.setComp(st, "CH!closed", "(Array Int Bool)", "(store "+cl+" "+ref+" false)")
	for _, k := range []string{"CH!sends", "CH!recvs", "CH!closes"} {
		cur := fc.compTerm(st, k, "(Array Int Int)")
		fc.setComp(st, k, "(Array Int Int)", "(store "+cur+" "+ref+" 0)")
	}
	return Scalar{ref, "Int", x.Type()}
}

func (fc *FuncCtx) keyTerm(st *State, v Value, kt types.Type) string {
	switch k := v.(type) {
	case Scalar:
		return k.T
	case PlaceV:
		return fc.scalarTerm(st, k, kt)
	}
	if sv, ok := v.(StructV); ok {
		// a struct-valued key: an uninterpreted encoding of its fields (equal fields give equal keys; that different
		// fields may collide only adds behaviours, it hides none)
		var args, sorts []string
		flat := true
		for _, f := range sv.Fields {
			sc, isS := f.(Scalar)
			if !isS {
				flat = false
				break
			}
			args = append(args, sc.T)
			sorts = append(sorts, sc.Sort)
		}
		if flat && len(args) > 0 {
			fn := qsym("skey!" + typeKey(kt))
			fc.u.declare(fn, "(declare-fun "+fn+" ("+strings.Join(sorts, " ")+") "+fc.sortOf(kt)+")")
			return "(" + fn + " " + strings.Join(args, " ") + ")"
		}
	}
	fc.unsupported("map key of kind %T", v)
	return ""
}

func (fc *FuncCtx) execLookup(fr *Frame, st *State, x *ssa.Lookup) Value {
	if isString(x.X.Type()) {
		// string index via Lookup does not occur in naive form
		fc.unsupported("string Lookup")
	}
	mt := x.X.Type().Underlying().(*types.Map)
	mk := fc.mapKeys(mt)
	m := fc.val(fr, st, x.X).(Scalar)
	k := fc.keyTerm(st, fc.val(fr, st, x.Index), mt.Key())
	has := fc.u.define("has", "Bool", tAnd(tNot(tEq(m.T, "0")), fc.mapHas(st, mk, m.T, k)))
	stored := fc.loadAt(st, mk.val, []string{m.T, k}, []string{"Int", mk.ksort}, "", mt.Elem())
	zero := fc.zeroValue(mt.Elem())
	val := fc.mergeValues([]string{has, tNot(has)}, []Value{stored, zero}, mt.Elem())
	if x.CommaOk {
		return TupleV{E: []Value{val, Scalar{has, "Bool", types.Typ[types.Bool]}}}
	}
	return val
}

func (fc *FuncCtx) execMapUpdate(fr *Frame, st *State, x *ssa.MapUpdate) {
	mt := x.Map.Type().Underlying().(*types.Map)
	mk := fc.mapKeys(mt)
	m := fc.val(fr, st, x.Map).(Scalar)
	fc.oblige(fr, st, "safety.nilmap", "", tNot(tEq(m.T, "0")), x.Pos(), "assignment to entry in a non-nil map")
	k := fc.keyTerm(st, fc.val(fr, st, x.Key), mt.Key())
	v := fc.val(fr, st, x.Value)
	fc.publish(st, x.Value.Type())
	fc.publish(st, x.Key.Type())
	fc.mapStore(st, mk, m.T, k, v)
}

func (fc *FuncCtx) mapStore(st *State, mk mapKeyInfo, m, k string, v Value) {
	hasSort := arraySort([]string{"Int"}, "(Array "+mk.ksort+" Bool)")
	had := fc.u.define("had", "Bool", fc.mapHas(st, mk, m, k))
	has := fc.compTerm(st, mk.has, hasSort)
	fc.setComp(st, mk.has, hasSort, tStore(has, []string{m, k}, "true"))
	ln := fc.compTerm(st, mk.len, "(Array Int Int)")
	fc.setComp(st, mk.len, "(Array Int Int)", "(store "+ln+" "+m+" "+tIte(had, "(select "+ln+" "+m+")", "(+ (select "+ln+" "+m+") 1)")+")")
	fc.storeAt(st, mk.val, []string{m, k}, []string{"Int", mk.ksort}, "", mk.vt, v)
}

func (fc *FuncCtx) mapDelete(st *State, mk mapKeyInfo, m, k string) {
	hasSort := arraySort([]string{"Int"}, "(Array "+mk.ksort+" Bool)")
	had := fc.u.define("had", "Bool", tAnd(tNot(tEq(m, "0")), fc.mapHas(st, mk, m, k)))
	has := fc.compTerm(st, mk.has, hasSort)
	// delete on a nil map is a no-op
	fc.setComp(st, mk.has, hasSort, tIte(tEq(m, "0"), has, tStore(has, []string{m, k}, "false")))
	ln := fc.compTerm(st, mk.len, "(Array Int Int)")
	fc.setComp(st, mk.len, "(Array Int Int)", "(store "+ln+" "+m+" "+tIte(had, "(- (select "+ln+" "+m+") 1)", "(select "+ln+" "+m+")")+")")
}

// ---------- range over maps / strings ----------

func (fc *FuncCtx) execRange(fr *Frame, st *State, x *ssa.Range) Value {
	// the iterator is opaque; Next yields arbitrary entries
	return Scalar{fc.u.fresh("iter", "Int"), "Int", nil}
}

func (fc *FuncCtx) execNext(fr *Frame, st *State, x *ssa.Next) Value {
	rng, ok := x.Iter.(*ssa.Range)
	if !ok {
		fc.unsupported("Next on non-Range")
	}
	okB := fc.u.fresh("next.ok", "Bool")
	if x.IsString {
		fc.unsupported("range over string")
	}
	mt := rng.X.Type().Underlying().(*types.Map)
	mk := fc.mapKeys(mt)
	m := fc.val(fr, st, rng.X).(Scalar)
	k := fc.freshValue(st, mt.Key(), "next.key")
	ks := fc.keyTerm(st, k, mt.Key())
	// when ok, the key is present in the map (arbitrary enumeration order; may repeat in the model: sound over-approximation)
	fc.u.fact(st.pc, tImp(okB, tAnd(tNot(tEq(m.T, "0")), fc.mapHas(st, mk, m.T, ks))))
	v := fc.loadAt(st, mk.val, []string{m.T, ks}, []string{"Int", mk.ksort}, "", mt.Elem())
	return TupleV{E: []Value{Scalar{okB, "Bool", types.Typ[types.Bool]}, k, v}}
}
