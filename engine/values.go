package main

import (
	"fmt"
	"go/types"
	"math/big"
	"strings"

	"golang.org/x/tools/go/ssa"
)

// ---------- symbolic values ----------

type Value interface{}

// Scalar: one SMT term. Typ is the Go type when known (nil for spec-level values).
type Scalar struct {
	T    string
	Sort string
	Typ  types.Type
}

// SliceV: a slice header. Base is a Ref (Int); Off/Len/Cap are of the model's int sort.
type SliceV struct {
	Base, Off, Len, Cap string
	Elem                types.Type
}

type StructV struct {
	Typ    types.Type // the (possibly named) struct type
	Fields []Value    // by field index
}

type TupleV struct{ E []Value }

// PlaceV: a pointer value kept as a place expression.
type PlaceV struct {
	Kind     string   // "obj", "elem", "local", "global", "cell"
	Prefix   string   // component prefix for heap kinds
	Idx      []string // index terms (ref | base, idx)
	IdxSorts []string
	Path     []string     // field names below the root
	Root     types.Type   // type of the root object (for Path rendering)
	Typ      types.Type   // type of the pointee
	Local    localKey     // for Kind == "local"
	Global   *ssa.Global  // for Kind == "global"
	RefTerm  string       // for obj kind with empty path: the ref term (== Idx[0])
}

type ClosureV struct {
	Fn       *ssa.Function
	Bindings []Value
	ID       string // opaque term (Int) identifying the closure value
}

type localKey struct {
	frame int
	a     *ssa.Alloc
}

// UnitV: a value we do not model (e.g. *deferStack).
type UnitV struct{}

// ---------- term helpers ----------

func tAnd(xs ...string) string {
	var out []string
	for _, x := range xs {
		if x == "true" || x == "" {
			continue
		}
		if x == "false" {
			return "false"
		}
		out = append(out, x)
	}
	switch len(out) {
	case 0:
		return "true"
	case 1:
		return out[0]
	}
	return "(and " + strings.Join(out, " ") + ")"
}

func tOr(xs ...string) string {
	var out []string
	for _, x := range xs {
		if x == "false" || x == "" {
			continue
		}
		if x == "true" {
			return "true"
		}
		out = append(out, x)
	}
	switch len(out) {
	case 0:
		return "false"
	case 1:
		return out[0]
	}
	return "(or " + strings.Join(out, " ") + ")"
}

func tNot(x string) string {
	if x == "true" {
		return "false"
	}
	if x == "false" {
		return "true"
	}
	if strings.HasPrefix(x, "(not ") && strings.HasSuffix(x, ")") && balanced(x[5:len(x)-1]) {
		return x[5 : len(x)-1]
	}
	return "(not " + x + ")"
}

func balanced(s string) bool {
	d := 0
	inq := false
	for i := 0; i < len(s); i++ {
		c := s[i]
		if c == '"' {
			inq = !inq
		}
		if inq {
			continue
		}
		if c == '(' {
			d++
		} else if c == ')' {
			d--
			if d < 0 {
				return false
			}
		} else if (c == ' ') && d == 0 {
			return false
		}
	}
	return d == 0
}

func tImp(a, b string) string {
	if a == "true" {
		return b
	}
	if a == "false" || b == "true" {
		return "true"
	}
	return "(=> " + a + " " + b + ")"
}

func tIte(c, a, b string) string {
	if c == "true" {
		return a
	}
	if c == "false" {
		return b
	}
	if a == b {
		return a
	}
	return "(ite " + c + " " + a + " " + b + ")"
}

func tEq(a, b string) string {
	if a == b {
		return "true"
	}
	return "(= " + a + " " + b + ")"
}

func tSel(arr string, idx ...string) string {
	t := arr
	for _, i := range idx {
		t = "(select " + t + " " + i + ")"
	}
	return t
}

// tStore builds nested store: arr[idx0][idx1] := v
func tStore(arr string, idx []string, v string) string {
	if len(idx) == 1 {
		return "(store " + arr + " " + idx[0] + " " + v + ")"
	}
	inner := tStore("(select "+arr+" "+idx[0]+")", idx[1:], v)
	return "(store " + arr + " " + idx[0] + " " + inner + ")"
}

func arraySort(idxSorts []string, elem string) string {
	s := elem
	for i := len(idxSorts) - 1; i >= 0; i-- {
		s = "(Array " + idxSorts[i] + " " + s + ")"
	}
	return s
}

func bvLit(v *big.Int, w int) string {
	m := new(big.Int).Lsh(big.NewInt(1), uint(w))
	x := new(big.Int).Mod(v, m)
	return fmt.Sprintf("(_ bv%s %d)", x.String(), w)
}

func intLitStr(v *big.Int) string {
	if v.Sign() < 0 {
		return "(- " + new(big.Int).Neg(v).String() + ")"
	}
	return v.String()
}

func smtStringLit(s string) string {
	var sb strings.Builder
	sb.WriteByte('"')
	for i := 0; i < len(s); i++ {
		c := s[i]
		switch {
		case c == '"':
			sb.WriteString("\"\"")
		case c == '\\':
			sb.WriteString("\\u{5c}")
		case c >= 0x20 && c < 0x7f:
			sb.WriteByte(c)
		default:
			sb.WriteString(fmt.Sprintf("\\u{%x}", c))
		}
	}
	sb.WriteByte('"')
	return sb.String()
}

func qsym(s string) string {
	// quoted SMT symbol; '|' and '\' are not allowed inside
	s = strings.ReplaceAll(s, "|", "!")
	s = strings.ReplaceAll(s, "\\", "/")
	simple := true
	for _, r := range s {
		if !((r >= 'a' && r <= 'z') || (r >= 'A' && r <= 'Z') || (r >= '0' && r <= '9') || r == '_' || r == '.' || r == '!' || r == '$' || r == '@' || r == '-' || r == '/') {
			simple = false
			break
		}
	}
	if simple && len(s) > 0 && !(s[0] >= '0' && s[0] <= '9') && s[0] != '-' && s[0] != '/' && s[0] != '.' && s[0] != '@' {
		return s
	}
	return "|" + s + "|"
}

// shortType renders a type with package paths shortened to their last two elements.
func shortType(t types.Type) string {
	return types.TypeString(t, func(p *types.Package) string {
		parts := strings.Split(p.Path(), "/")
		if len(parts) > 2 {
			parts = parts[len(parts)-2:]
		}
		return strings.Join(parts, "/")
	})
}

func isOpaqueStruct(t types.Type) bool {
	n, ok := t.(*types.Named)
	if !ok {
		return false
	}
	if n.Obj().Pkg() == nil {
		return false
	}
	p := n.Obj().Pkg().Path()
	switch p {
	case "sync", "time", "sync/atomic", "container/list", "regexp", "net/http", "log", "bytes", "bufio", "strings":
		return true
	}
	return false
}
