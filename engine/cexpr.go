package main

// Contract expression language: Go expression syntax plus
//   a ==> b, a <==> b, forall x T, y U :: e, exists x T :: e
// and the builtin functions listed in DESIGN.md section 3.7.

import (
	"fmt"
	"strconv"
	"strings"
	"unicode"
)

type Expr interface{ String() string }

type EIdent struct{ Name string }
type ELit struct {
	Kind string // "int", "string", "bool", "nil", "char"
	Val  string
}
type EUn struct {
	Op string
	X  Expr
}
type EBin struct {
	Op   string
	X, Y Expr
}
type ECall struct {
	Fun  Expr
	Args []Expr
}
type ESel struct {
	X    Expr
	Name string
}
type EIndex struct{ X, I Expr }
type ESlice struct{ X, Lo, Hi Expr }
type EQuant struct {
	Forall bool
	Vars   []ParamDecl
	Body   Expr
}

type ParamDecl struct {
	Name string
	Type string // textual type as written
}

func (e *EIdent) String() string { return e.Name }
func (e *ELit) String() string {
	if e.Kind == "string" {
		return strconv.Quote(e.Val)
	}
	if e.Kind == "char" {
		return "'" + e.Val + "'"
	}
	return e.Val
}
func (e *EUn) String() string  { return e.Op + e.X.String() }
func (e *EBin) String() string { return "(" + e.X.String() + " " + e.Op + " " + e.Y.String() + ")" }
func (e *ECall) String() string {
	var a []string
	for _, x := range e.Args {
		a = append(a, x.String())
	}
	return e.Fun.String() + "(" + strings.Join(a, ", ") + ")"
}
func (e *ESel) String() string   { return e.X.String() + "." + e.Name }
func (e *EIndex) String() string { return e.X.String() + "[" + e.I.String() + "]" }
func (e *ESlice) String() string {
	lo, hi := "", ""
	if e.Lo != nil {
		lo = e.Lo.String()
	}
	if e.Hi != nil {
		hi = e.Hi.String()
	}
	return e.X.String() + "[" + lo + ":" + hi + "]"
}
func (e *EQuant) String() string {
	q := "exists"
	if e.Forall {
		q = "forall"
	}
	var vs []string
	for _, v := range e.Vars {
		vs = append(vs, v.Name+" "+v.Type)
	}
	return "(" + q + " " + strings.Join(vs, ", ") + " :: " + e.Body.String() + ")"
}

// ---- lexer ----

type tok struct {
	kind string // "id", "int", "str", "char", "op", "eof"
	s    string
	pos  int
}

func lexExpr(src string) ([]tok, error) {
	var out []tok
	i := 0
	for i < len(src) {
		c := src[i]
		switch {
		case c == ' ' || c == '\t' || c == '\n' || c == '\r':
			i++
		case unicode.IsLetter(rune(c)) || c == '_':
			j := i
			for j < len(src) && (unicode.IsLetter(rune(src[j])) || unicode.IsDigit(rune(src[j])) || src[j] == '_' || src[j] == '$' || src[j] == '#') {
				j++
			}
			out = append(out, tok{"id", src[i:j], i})
			i = j
		case c >= '0' && c <= '9':
			j := i
			for j < len(src) && (unicode.IsDigit(rune(src[j])) || unicode.IsLetter(rune(src[j])) || src[j] == '_') {
				j++
			}
			out = append(out, tok{"int", src[i:j], i})
			i = j
		case c == '"':
			j := i + 1
			for j < len(src) && src[j] != '"' {
				if src[j] == '\\' {
					j++
				}
				j++
			}
			if j >= len(src) {
				return nil, fmt.Errorf("unterminated string at %d", i)
			}
			s, err := strconv.Unquote(src[i : j+1])
			if err != nil {
				return nil, fmt.Errorf("bad string %s: %v", src[i:j+1], err)
			}
			out = append(out, tok{"str", s, i})
			i = j + 1
		case c == '\'':
			j := i + 1
			for j < len(src) && src[j] != '\'' {
				if src[j] == '\\' {
					j++
				}
				j++
			}
			if j >= len(src) {
				return nil, fmt.Errorf("unterminated char at %d", i)
			}
			r, _, _, err := strconv.UnquoteChar(src[i+1:j], '\'')
			if err != nil {
				return nil, fmt.Errorf("bad char %s", src[i:j+1])
			}
			out = append(out, tok{"char", strconv.Itoa(int(r)), i})
			i = j + 1
		default:
			ops := []string{"<==>", "==>", "::", "&&", "||", "==", "!=", "<=", ">=", "<<", ">>", "&^", "+", "-", "*", "/", "%", "&", "|", "^", "<", ">", "!", "(", ")", "[", "]", ",", ".", ":"}
			matched := false
			for _, op := range ops {
				if strings.HasPrefix(src[i:], op) {
					out = append(out, tok{"op", op, i})
					i += len(op)
					matched = true
					break
				}
			}
			if !matched {
				return nil, fmt.Errorf("unexpected character %q at %d in %q", c, i, src)
			}
		}
	}
	out = append(out, tok{"eof", "", len(src)})
	return out, nil
}

type exprParser struct {
	toks []tok
	p    int
	src  string
}

func ParseExpr(src string) (e Expr, err error) {
	toks, err := lexExpr(src)
	if err != nil {
		return nil, err
	}
	ps := &exprParser{toks: toks, src: src}
	defer func() {
		if r := recover(); r != nil {
			if pe, ok := r.(parseErr); ok {
				err = fmt.Errorf("%s in %q", string(pe), src)
				return
			}
			panic(r)
		}
	}()
	e = ps.parseTop()
	if ps.cur().kind != "eof" {
		ps.fail("unexpected token %q", ps.cur().s)
	}
	return e, nil
}

type parseErr string

func (ps *exprParser) fail(f string, a ...interface{}) {
	panic(parseErr(fmt.Sprintf(f, a...)))
}
func (ps *exprParser) cur() tok { return ps.toks[ps.p] }
func (ps *exprParser) isOp(s string) bool {
	return ps.cur().kind == "op" && ps.cur().s == s
}
func (ps *exprParser) eat(s string) {
	if !ps.isOp(s) {
		ps.fail("expected %q, found %q", s, ps.cur().s)
	}
	ps.p++
}

// precedence: <==> (1), ==> (2, right), || (3), && (4), comparison (5), + - | ^ (6), * / % << >> & &^ (7)
func (ps *exprParser) parseTop() Expr {
	if ps.cur().kind == "id" && (ps.cur().s == "forall" || ps.cur().s == "exists") {
		return ps.parseQuant()
	}
	return ps.parseIff()
}

func (ps *exprParser) parseQuant() Expr {
	forall := ps.cur().s == "forall"
	ps.p++
	var vars []ParamDecl
	for {
		if ps.cur().kind != "id" {
			ps.fail("expected bound variable")
		}
		name := ps.cur().s
		ps.p++
		typ := ps.parseTypeText()
		vars = append(vars, ParamDecl{name, typ})
		if ps.isOp(",") {
			ps.p++
			continue
		}
		break
	}
	ps.eat("::")
	body := ps.parseTop()
	return &EQuant{Forall: forall, Vars: vars, Body: body}
}

// parseTypeText reads a type as text up to ',' or '::' or ')' at depth 0.
func (ps *exprParser) parseTypeText() string {
	var sb strings.Builder
	depth := 0
	for {
		t := ps.cur()
		if t.kind == "eof" {
			break
		}
		if t.kind == "op" {
			if depth == 0 && (t.s == "," || t.s == "::" || t.s == ")") {
				break
			}
			if t.s == "(" || t.s == "[" {
				depth++
			}
			if t.s == ")" || t.s == "]" {
				depth--
			}
		}
		sb.WriteString(t.s)
		ps.p++
	}
	return sb.String()
}

func (ps *exprParser) parseIff() Expr {
	x := ps.parseImp()
	for ps.isOp("<==>") {
		ps.p++
		y := ps.parseImp()
		x = &EBin{"<==>", x, y}
	}
	return x
}
func (ps *exprParser) parseImp() Expr {
	x := ps.parseOr()
	if ps.isOp("==>") {
		ps.p++
		var y Expr
		if ps.cur().kind == "id" && (ps.cur().s == "forall" || ps.cur().s == "exists") {
			y = ps.parseQuant()
		} else {
			y = ps.parseImp()
		}
		return &EBin{"==>", x, y}
	}
	return x
}
func (ps *exprParser) parseOr() Expr {
	x := ps.parseAnd()
	for ps.isOp("||") {
		ps.p++
		y := ps.parseAnd()
		x = &EBin{"||", x, y}
	}
	return x
}
func (ps *exprParser) parseAnd() Expr {
	x := ps.parseCmp()
	for ps.isOp("&&") {
		ps.p++
		var y Expr
		if ps.cur().kind == "id" && (ps.cur().s == "forall" || ps.cur().s == "exists") {
			y = ps.parseQuant()
		} else {
			y = ps.parseCmp()
		}
		x = &EBin{"&&", x, y}
	}
	return x
}
func (ps *exprParser) parseCmp() Expr {
	x := ps.parseAdd()
	for ps.cur().kind == "op" {
		switch ps.cur().s {
		case "==", "!=", "<", "<=", ">", ">=":
			op := ps.cur().s
			ps.p++
			y := ps.parseAdd()
			x = &EBin{op, x, y}
			continue
		}
		break
	}
	return x
}
func (ps *exprParser) parseAdd() Expr {
	x := ps.parseMul()
	for ps.cur().kind == "op" {
		switch ps.cur().s {
		case "+", "-", "|", "^":
			op := ps.cur().s
			ps.p++
			y := ps.parseMul()
			x = &EBin{op, x, y}
			continue
		}
		break
	}
	return x
}
func (ps *exprParser) parseMul() Expr {
	x := ps.parseUnary()
	for ps.cur().kind == "op" {
		switch ps.cur().s {
		case "*", "/", "%", "<<", ">>", "&", "&^":
			op := ps.cur().s
			ps.p++
			y := ps.parseUnary()
			x = &EBin{op, x, y}
			continue
		}
		break
	}
	return x
}
func (ps *exprParser) parseUnary() Expr {
	if ps.cur().kind == "op" {
		switch ps.cur().s {
		case "!", "-", "^", "*", "&":
			op := ps.cur().s
			ps.p++
			return &EUn{op, ps.parseUnary()}
		}
	}
	return ps.parsePostfix()
}
func (ps *exprParser) parsePostfix() Expr {
	x := ps.parsePrimary()
	for ps.cur().kind == "op" {
		switch ps.cur().s {
		case ".":
			ps.p++
			if ps.cur().kind != "id" {
				ps.fail("expected selector name")
			}
			x = &ESel{x, ps.cur().s}
			ps.p++
			continue
		case "(":
			ps.p++
			var args []Expr
			for !ps.isOp(")") {
				args = append(args, ps.parseTop())
				if ps.isOp(",") {
					ps.p++
				} else {
					break
				}
			}
			ps.eat(")")
			x = &ECall{x, args}
			continue
		case "[":
			ps.p++
			var lo, hi Expr
			if ps.isOp(":") {
				ps.p++
				if !ps.isOp("]") {
					hi = ps.parseTop()
				}
				ps.eat("]")
				x = &ESlice{x, nil, hi}
				continue
			}
			lo = ps.parseTop()
			if ps.isOp(":") {
				ps.p++
				if !ps.isOp("]") {
					hi = ps.parseTop()
				}
				ps.eat("]")
				x = &ESlice{x, lo, hi}
				continue
			}
			ps.eat("]")
			x = &EIndex{x, lo}
			continue
		}
		break
	}
	return x
}
func (ps *exprParser) parsePrimary() Expr {
	t := ps.cur()
	switch t.kind {
	case "id":
		ps.p++
		switch t.s {
		case "true", "false":
			return &ELit{"bool", t.s}
		case "nil":
			return &ELit{"nil", "nil"}
		}
		return &EIdent{t.s}
	case "int":
		ps.p++
		return &ELit{"int", t.s}
	case "str":
		ps.p++
		return &ELit{"string", t.s}
	case "char":
		ps.p++
		return &ELit{"char", t.s}
	case "op":
		if t.s == "(" {
			ps.p++
			e := ps.parseTop()
			ps.eat(")")
			return e
		}
	}
	ps.fail("unexpected token %q", t.s)
	return nil
}
