package main

import (
	"fmt"
	"go/token"
	"go/types"
	"strings"

	"golang.org/x/tools/go/ssa"
)

// invariantsFor returns the invariant declarations for struct type `owner` guarded by `field` ("" = unguarded object invariants).
func (e *Engine) invariantsFor(owner types.Type, field string) []*InvariantDecl {
	var out []*InvariantDecl
	if owner == nil {
		return nil
	}
	for _, inv := range e.invariants {
		t := e.lookupType(inv.Pkg, inv.Type)
		if t == nil {
			continue
		}
		if types.Identical(t, owner) && inv.Guard == field {
			out = append(out, inv)
		}
	}
	return out
}

func (fc *FuncCtx) invEnv(st *State, inv *InvariantDecl, owner types.Type, ref string) *Env {
	recv := inv.Recv
	if recv == "" {
		recv = "self"
	}
	ev := fc.newEnvVars(st, st, map[string]Value{recv: Scalar{ref, "Int", types.NewPointer(owner)}}, nil)
	ev.pkg = inv.Pkg
	return ev
}

// monitorEnter: at Lock — other threads may have changed the protected components; assume the invariant.
func (fc *FuncCtx) monitorEnter(fr *Frame, st *State, owner types.Type, field, ref string, pos token.Pos) {
	invs := fc.eng.invariantsFor(owner, field)
	if len(invs) == 0 {
		return
	}
	for _, inv := range invs {
		keys := fc.eng.protectKeys(inv)
		// monotone ghost flags (`protects monotone T.f`): other threads may set them, never clear them
		type mono struct{ key, before string }
		var monos []mono
		for _, p := range inv.Protects {
			p = strings.TrimSpace(p)
			if strings.HasPrefix(p, "monotone ") {
				k := "X!" + strings.TrimSpace(p[9:])
				monos = append(monos, mono{k, fc.compTerm(st, k, "(Array Int Bool)")})
				keys = append(keys, k)
			}
		}
		if len(keys) > 0 {
			ms := &ModSet{keys: map[string]bool{}}
			for _, k := range keys {
				ms.keys[k] = true
			}
			fc.havocKeys(st, ms.matcher(), "")
		}
		for _, m := range monos {
			after := fc.compTerm(st, m.key, "(Array Int Bool)")
			fc.u.emit("(assert (forall ((r Int)) (! (=> (select " + m.before + " r) (select " + after + " r)) :pattern ((select " + after + " r)))))")
		}
	}
	for _, inv := range invs {
		for _, cl := range inv.Clauses {
			ev := fc.invEnv(st, inv, owner, ref)
			ev.monitorAssume = true
			fc.u.fact(st.pc, ev.evalBool(cl.E))
		}
		for _, cl := range inv.Assumes {
			ev := fc.invEnv(st, inv, owner, ref)
			ev.monitorAssume = true
			fc.u.fact(st.pc, ev.evalBool(cl.E))
			fc.u.Assumptions["assumed for every "+inv.Type+" (never proved): "+cl.Src] = true
		}
	}
	fc.u.Assumptions["monitor discipline: every thread that changes state protected by "+shortType(owner)+"."+field+" holds that lock and re-establishes the declared invariant before releasing it (each such function under contract is checked to do so)"] = true
}

func (fc *FuncCtx) monitorExit(fr *Frame, st *State, owner types.Type, field, ref string, pos token.Pos) {
	invs := fc.eng.invariantsFor(owner, field)
	for _, inv := range invs {
		for i, cl := range inv.Clauses {
			ev := fc.invEnv(st, inv, owner, ref)
			g := ev.evalBool(cl.E)
			label := cl.Label
			if label == "" {
				label = fmt.Sprintf("#%d", i+1)
			}
			saved := fc.props
			if len(inv.Props) > 0 {
				fc.props = mergeProps(fc.props, inv.Props)
			}
			fc.oblige(fr, st, "inv."+inv.Type+".unlock", label, g, pos, "monitor invariant of "+inv.Type+" holds when the lock is released: "+cl.Src)
			fc.props = saved
			fc.clauseHit[cl]++
		}
	}
}

func mergeProps(a, b []string) []string {
	seen := map[string]bool{}
	var out []string
	for _, x := range append(append([]string(nil), a...), b...) {
		if !seen[x] {
			seen[x] = true
			out = append(out, x)
		}
	}
	return out
}

// ---------- guarded-by ----------

// checkGuard emits an obligation when the accessed place is a field declared `guarded T.f by lock`.
func (fc *FuncCtx) checkGuard(fr *Frame, st *State, p PlaceV, pos token.Pos, write bool) {
	if !fc.guardMode {
		return
	}
	if p.Kind == "global" && p.Global != nil && len(p.Path) == 0 {
		fc.checkGlobalGuard(fr, st, p, pos, write)
		return
	}
	if p.Kind != "obj" {
		return
	}
	// an access to the whole struct (copying *p, e.g. to call a value-receiver method) touches every field
	whole := len(p.Path) == 0
	for _, g := range fc.eng.guarded {
		t := fc.eng.lookupType(g.Pkg, g.Type)
		if t == nil || !types.Identical(t, p.Root) || (!whole && p.Path[0] != g.Field) {
			continue
		}
		if fc.freshRefs[p.Idx[0]] {
			// object allocated by this activation and not yet published
			continue
		}
		if g.Mode == "atomic" {
			fc.oblige(fr, st, "guard."+g.Type+"."+g.Field, "", "false", pos, "field "+g.Type+"."+g.Field+" is only accessed through sync/atomic (this is a plain load/store"+map[bool]string{true: " of the whole struct", false: ""}[whole]+")")
			continue
		}
		key := "L!O!" + typeKey(t) + "." + g.Lock
		var held string
		rmode := "false" // the lock is held in read mode only (RWMutex.RLock)
		if lt, lf := fc.eng.foreignLock(g); lt != nil {
			held = fc.foreignHeld(st, lt, lf)
		} else {
			held = fc.heldTerm(st, key, p.Idx[0])
			rmode = fc.heldTerm(st, "L!R!"+key, p.Idx[0])
		}
		if stt, ok := t.Underlying().(*types.Struct); ok && !strings.Contains(g.Lock, ".") {
			for i := 0; i < stt.NumFields(); i++ {
				if stt.Field(i).Name() == g.Lock {
					if _, isPtr := stt.Field(i).Type().Underlying().(*types.Pointer); isPtr {
						// the mutex is held by pointer: the lock that counts is the one the field points to now
						lp := fc.objPlace(p.Idx[0], t)
						lp.Path = []string{g.Lock}
						lp.Typ = stt.Field(i).Type()
						if lv, ok := fc.loadPlace(st, lp).(Scalar); ok {
							held = fc.heldTerm(st, "L!bare", lv.T)
							rmode = fc.heldTerm(st, "L!R!L!bare", lv.T)
						}
					}
				}
			}
		}
		saved := fc.props
		if len(g.Props) > 0 {
			fc.props = g.Props
		}
		acc := "read"
		if write {
			acc = "write"
			// a write needs the lock in write mode (not RLock)
			held = tAnd(held, tNot(rmode))
		}
		fc.oblige(fr, st, "guard."+g.Type+"."+g.Field, "", held, pos, acc+" of "+g.Type+"."+g.Field+" happens with "+g.Lock+" held"+map[bool]string{true: " in write mode", false: ""}[write])
		fc.props = saved
	}
}

// foreignHeld: some lock LT.lf is held by this activation (one of those it acquired, or the one its callers hold when
// it is a lock-free accessor).
func (fc *FuncCtx) foreignHeld(st *State, lt types.Type, lf string) string {
	key := "L!O!" + typeKey(lt) + "." + lf
	var cs []string
	for _, h := range st.heldLocks {
		i := strings.LastIndex(h, "|")
		if h[:i] == key {
			cs = append(cs, fc.heldTerm(st, key, h[i+1:]))
		}
	}
	if len(cs) == 0 {
		return "false"
	}
	return tOr(cs...)
}

// checkGlobalGuard: `guarded global x by l` — package-level variable x is only touched with the package-level lock l
// held (l: a mutex variable, or a variable holding a pointer to one).
func (fc *FuncCtx) checkGlobalGuard(fr *Frame, st *State, p PlaceV, pos token.Pos, write bool) {
	if fc.isPkgInit() {
		// package initialisation happens before any goroutine of the package exists
		return
	}
	for _, g := range fc.eng.guarded {
		if g.Type != "global" || g.Field != p.Global.Name() || p.Global.Pkg == nil || p.Global.Pkg.Pkg.Path() != g.Pkg {
			continue
		}
		lg, _ := p.Global.Pkg.Members[g.Lock].(*ssa.Global)
		if lg == nil {
			fc.unsupported("guarded global %s: no package-level variable %s", g.Field, g.Lock)
		}
		var held string
		lt := lg.Type().(*types.Pointer).Elem()
		if _, isPtr := lt.Underlying().(*types.Pointer); isPtr {
			lv, ok := fc.loadPlace(st, PlaceV{Kind: "global", Global: lg, Root: lt, Typ: lt}).(Scalar)
			if !ok {
				fc.unsupported("guarded global %s: lock variable %s is not a pointer value", g.Field, g.Lock)
			}
			held = fc.heldTerm(st, "L!bare", lv.T)
			if write {
				held = tAnd(held, tNot(fc.heldTerm(st, "L!R!L!bare", lv.T)))
			}
		} else {
			held = fc.heldTerm(st, "L!G!"+globalKey(lg), "0")
			if write {
				held = tAnd(held, tNot(fc.heldTerm(st, "L!R!L!G!"+globalKey(lg), "0")))
			}
		}
		acc := "read"
		if write {
			acc = "write (needs the lock in write mode)"
		}
		fc.oblige(fr, st, "guard.global."+g.Field, "", held, pos, acc+" of package-level "+g.Field+" happens with "+g.Lock+" held")
	}
}

func (fc *FuncCtx) atomicAccess(fr *Frame, st *State, p PlaceV, pos token.Pos) {}

// ---------- blocking operations (B1/B2) ----------

// underLock (B2): an operation that can block must not be performed while this activation holds a lock.
func (fc *FuncCtx) underLock(fr *Frame, st *State, what string, pos token.Pos) {
	if len(st.heldLocks) == 0 {
		return
	}
	var cs []string
	for _, h := range st.heldLocks {
		i := strings.LastIndex(h, "|")
		key, ref := h[:i], h[i+1:]
		cs = append(cs, tNot(fc.heldTerm(st, key, ref)))
	}
	fc.oblige(fr, st, "block.under-lock", "", tAnd(cs...), pos, what+" can block and is therefore not performed while a lock is held (B2)")
}

func (fc *FuncCtx) blockingOp(fr *Frame, st *State, kind string, ins ssa.Instruction, ch string, pos token.Pos) {
	if fr.con == nil || fr.con.Flags["concurrent"] == "" {
		return
	}
	fc.underLock(fr, st, "a blocking "+kind, pos)
	// B1: a bare send/receive has no abandon case. It must be justified by the contract:
	//   flag paired=<name>  or a capacity argument discharged below.
	cp := "(select " + fc.compTerm(st, "CH!cap", "(Array Int Int)") + " " + ch + ")"
	sends := "(select " + fc.compTerm(st, "CH!sends", "(Array Int Int)") + " " + ch + ")"
	if kind == "send" {
		// (b) capacity argument: number of sends performed so far on this channel (by this activation, on a channel it created) < capacity
		g := "(< " + sends + " " + cp + ")"
		fc.u.Assumptions["B1(b): the sends counted for a buffered channel are all the sends ever made on it (single sending activation)"] = true
		if pw := fr.con.Flags["paired-send"]; pw != "" {
			fc.u.Assumptions["blocking send in "+fr.prefix+" is paired with "+pw+" (assumed to be running and to receive exactly once)"] = true
			return
		}
		fc.oblige(fr, st, "block.send", "", g, pos, "blocking send cannot park forever: channel created by this activation with spare capacity (B1 b)")
		return
	}
	if pw := fr.con.Flags["paired-recv"]; pw != "" {
		fc.u.Assumptions["blocking receive in "+fr.prefix+" is paired with "+pw] = true
		return
	}
	fc.oblige(fr, st, "block.recv", "", "false", pos, "blocking receive has an abandon case or a proved counterpart (B1)")
}

func (fc *FuncCtx) selectOp(fr *Frame, st *State, x *ssa.Select, idx string) {
	if fr.con != nil && fr.con.Flags["watches"] != "" {
		// `flag watches=a,b`: some select of this function has a receive case on each named channel (recorded here,
		// judged when the function has been executed)
		if fc.watched == nil {
			fc.watched = map[string]bool{}
		}
		for _, w := range strings.Split(fr.con.Flags["watches"], ",") {
			for _, s := range x.States {
				if w != "" && s.Dir == types.RecvOnly && chanNamed(s.Chan, w) {
					fc.watched[w] = true
				}
			}
		}
	}
	if fr.con == nil || fr.con.Flags["concurrent"] == "" {
		return
	}
	if !x.Blocking {
		// a select with a default case never blocks
		o := &Obligation{Name: fmt.Sprintf("%s/block.select#%d", fr.prefix, fc.nextOrd(fr.prefix+"/block.select")), Kind: "block.select", Func: fr.prefix, Pos: fc.posStr(x.Pos()), Goal: "true", PC: st.pc, Unit: fc.u, Props: fc.props, Structural: true, StructOK: true, Note: "non-blocking (default case)", Desc: "select has a default case: its channel operations cannot block"}
		fc.u.Obls = append(fc.u.Obls, o)
		return
	}
	abandon := false
	for _, l := range strings.Split(fr.con.Flags["lock-free-abandon"], ",") {
		for _, s := range x.States {
			if l != "" && s.Dir == types.RecvOnly && chanNamed(s.Chan, l) {
				abandon = true
			}
		}
	}
	if abandon && len(st.heldLocks) > 0 {
		// B2 exception: the select may wait while a lock is held because one of its cases receives from a lifetime
		// channel whose closer does not need that lock (asserted in the closer's own contract)
		o := &Obligation{Name: fmt.Sprintf("%s/block.under-lock#%d", fr.prefix, fc.nextOrd(fr.prefix+"/block.under-lock")), Kind: "block.under-lock", Func: fr.prefix, Pos: fc.posStr(x.Pos()), Goal: "true", PC: st.pc, Unit: fc.u, Props: fc.props, Structural: true, StructOK: true, Note: "abandoned through " + fr.con.Flags["lock-free-abandon"], Desc: "blocking select under a lock has a case on a lifetime channel that is closed without that lock (B2 exception)"}
		fc.u.Obls = append(fc.u.Obls, o)
		fc.u.Assumptions["B2 exception in "+fr.prefix+": the closer of "+fr.con.Flags["lock-free-abandon"]+" does not need the lock held here (asserted at its close site in the closer's contract)"] = true
	} else {
		fc.underLock(fr, st, "a blocking select", x.Pos())
	}
	// B1 (a): structural — one case receives from a timer or a lifetime channel named in the contract
	ok := false
	life := strings.Split(fr.con.Flags["lifetime"], ",")
	for _, s := range x.States {
		if s.Dir != types.RecvOnly {
			continue
		}
		if isTimerChan(s.Chan) {
			ok = true
		}
		for _, l := range life {
			if l != "" && chanNamed(s.Chan, l) {
				ok = true
			}
		}
	}
	if !ok && fr.con.Flags["paired-select"] != "" {
		// (c) every case receives from a channel whose (named) counterpart is proved to close it on every path
		ok = true
		fc.u.Assumptions["B1(c): the blocking select of "+fr.prefix+" waits on channels that its counterparts "+fr.con.Flags["paired-select"]+" are proved to close on every path (that they are running is assumed)"] = true
	}
	o := &Obligation{Name: fmt.Sprintf("%s/block.select#%d", fr.prefix, fc.nextOrd(fr.prefix+"/block.select")), Kind: "block.select", Func: fr.prefix, Pos: fc.posStr(x.Pos()), Goal: "true", PC: st.pc, Unit: fc.u, Props: fc.props, Structural: true, StructOK: ok, Desc: "blocking select can always be abandoned: one case receives from a timer or a declared lifetime channel (B1 a), or its counterparts close the channels (B1 c)"}
	if !ok {
		o.Note = "no timer / lifetime case"
	} else {
		o.Note = "structural"
	}
	fc.u.Obls = append(fc.u.Obls, o)
}

func (fc *FuncCtx) nextOrd(k string) int {
	fc.ordinals[k]++
	return fc.ordinals[k]
}

func isTimerChan(v ssa.Value) bool {
	switch x := v.(type) {
	case *ssa.Call:
		if f := x.Call.StaticCallee(); f != nil {
			switch f.String() {
			case "time.After", "time.Tick":
				return true
			}
		}
	case *ssa.UnOp:
		if x.Op == token.MUL {
			if fa, ok := x.X.(*ssa.FieldAddr); ok {
				st := fa.X.Type().Underlying().(*types.Pointer).Elem()
				if n, ok := st.(*types.Named); ok && n.Obj().Pkg() != nil && n.Obj().Pkg().Path() == "time" && (n.Obj().Name() == "Timer" || n.Obj().Name() == "Ticker") {
					return true
				}
			}
			// local variable holding a timer channel
			if a, ok := x.X.(*ssa.Alloc); ok {
				for _, r := range *a.Referrers() {
					if s, ok := r.(*ssa.Store); ok && s.Addr == a && isTimerChan(s.Val) {
						return true
					}
				}
			}
		}
	}
	return false
}

func chanNamed(v ssa.Value, name string) bool {
	switch x := v.(type) {
	case *ssa.UnOp:
		if x.Op == token.MUL {
			if fa, ok := x.X.(*ssa.FieldAddr); ok {
				st := fa.X.Type().Underlying().(*types.Pointer).Elem().Underlying().(*types.Struct)
				return st.Field(fa.Field).Name() == name
			}
			if a, ok := x.X.(*ssa.Alloc); ok {
				return a.Comment == name
			}
			if fv, ok := x.X.(*ssa.FreeVar); ok {
				return fv.Name() == name
			}
		}
	case *ssa.FreeVar:
		return x.Name() == name
	case *ssa.Call:
		if x.Call.IsInvoke() {
			return x.Call.Method.Name() == name
		}
		if f := x.Call.StaticCallee(); f != nil {
			return f.Name() == name
		}
	}
	return false
}

// atMake: `at call make assert ...` with `size` bound to the requested length.
func (fc *FuncCtx) atMake(fr *Frame, st *State, x *ssa.MakeSlice, ln string) {
	fc.atCallClauses(fr, st, nil, "make", "make", map[string]Value{"size": Scalar{ln, fc.intSort(), types.Typ[types.Int]}}, x.Pos())
}

// watchObligations: `flag watches=a,b` — the function stops when any of the named channels fires: one of its selects
// has a receive case on each of them (structural).
func (fc *FuncCtx) watchObligations(fr *Frame) {
	if fr.con == nil || fr.con.Flags["watches"] == "" {
		return
	}
	for _, w := range strings.Split(fr.con.Flags["watches"], ",") {
		if w == "" {
			continue
		}
		o := &Obligation{Name: fr.prefix + "/block.watches." + w, Kind: "block.watches", Func: fr.prefix, Goal: "true", PC: "true", Unit: fc.u, Props: fc.props, Structural: true, StructOK: fc.watched[w],
			Desc: "a select of this function has a receive case on " + w + " (it stops when that channel fires)"}
		if !fc.watched[w] {
			o.Note = "no select receives from " + w
		}
		fc.u.Obls = append(fc.u.Obls, o)
	}
}
